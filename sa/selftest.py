"""Checker self-test: run the rules on scratch copies of the package with one edit each.

A variant = (id, property, kind, [(file, old, new)...], expect_rule).
  kind 'break'  : the check must exit 1 and report a finding of `expect_rule`
  kind 'benign' : the check must produce no new finding (exit 0)
  kind 'repair' : a known finding listed for the property must disappear, nothing new appear
Edits are exact source-fragment replacements located in the *current* tree; if
the fragment is absent the variant is 'inapplicable' (not a failure).  Every
edited file must still compile.  Scratch copies live in a mkdtemp outside /repo
and /verif and are removed immediately.  Self-test outcomes judge the checker,
not the repository: they never produce a VIOLATION line or change exit codes.
"""
import contextlib
import io
import json
import os
import shutil
import subprocess
import sys
import tempfile
import concurrent.futures

from . import report

VARIANTS_FILE = os.path.join(report.VERIF, 'selftest', 'variants.json')


def load_variants():
    with open(VARIANTS_FILE) as f:
        return json.load(f)['variants']


def rename_locals(src):
    """Rename function-local variables (not parameters, not names touched by
    nested scopes) to <name>_rn9: a behaviour-preserving edit that defeats any
    rule keyed on a local's spelling."""
    import ast
    tree = ast.parse(src)
    SCOPES = (ast.FunctionDef, ast.AsyncFunctionDef, ast.Lambda, ast.ListComp,
              ast.SetComp, ast.DictComp, ast.GeneratorExp, ast.ClassDef)

    def own(node):
        stack = list(ast.iter_child_nodes(node))
        while stack:
            n = stack.pop()
            yield n
            if isinstance(n, SCOPES):
                continue
            stack.extend(ast.iter_child_nodes(n))

    for fn in [n for n in ast.walk(tree) if isinstance(
            n, (ast.FunctionDef, ast.AsyncFunctionDef))]:
        params = {a.arg for a in fn.args.posonlyargs + fn.args.args +
                  fn.args.kwonlyargs}
        if fn.args.vararg:
            params.add(fn.args.vararg.arg)
        if fn.args.kwarg:
            params.add(fn.args.kwarg.arg)
        stored, banned = set(), set(params)
        for n in own(fn):
            if isinstance(n, ast.Name) and isinstance(n.ctx, ast.Store):
                stored.add(n.id)
            elif isinstance(n, (ast.Global, ast.Nonlocal)):
                banned |= set(n.names)
            elif isinstance(n, ast.ExceptHandler) and n.name:
                banned.add(n.name)
            elif isinstance(n, (ast.Import, ast.ImportFrom)):
                for a in n.names:
                    banned.add((a.asname or a.name).split('.')[0])
            elif isinstance(n, (ast.FunctionDef, ast.AsyncFunctionDef,
                                ast.ClassDef)):
                banned.add(n.name)
            if isinstance(n, SCOPES):
                # anything mentioned inside a nested scope is left alone
                for x in ast.walk(n):
                    if isinstance(x, ast.Name):
                        banned.add(x.id)
                    elif isinstance(x, ast.arg):
                        banned.add(x.arg)
        # decorators/defaults are evaluated outside
        todo = {n for n in stored - banned if not n.startswith('__')}
        for n in own(fn):
            if isinstance(n, ast.Name) and n.id in todo:
                n.id = n.id + '_rn9'
    return ast.unparse(tree) + '\n'


def _unique_defs(root):
    """name -> (params, is_method) for functions defined exactly once in the
    package, without *args/**kwargs/keyword-only/positional-only parameters."""
    import ast
    seen = {}
    for dp, dn, fn in os.walk(root):
        for f in fn:
            if not f.endswith('.py'):
                continue
            with open(os.path.join(dp, f)) as fh:
                tree = ast.parse(fh.read())
            classes = [c for c in ast.walk(tree) if isinstance(c, ast.ClassDef)]
            methods = {id(m) for c in classes for m in c.body
                       if isinstance(m, ast.FunctionDef)}
            for n in ast.walk(tree):
                if isinstance(n, ast.FunctionDef):
                    a = n.args
                    ok = not (a.vararg or a.kwarg or a.kwonlyargs or
                              a.posonlyargs or n.decorator_list)
                    seen.setdefault(n.name, []).append(
                        ([x.arg for x in a.args], id(n) in methods, ok))
                elif isinstance(n, (ast.Assign, ast.ClassDef)):
                    # a name that is also a variable/class is ambiguous
                    for t in getattr(n, 'targets', []):
                        if isinstance(t, ast.Name):
                            seen.setdefault(t.id, []).append((None, False, False))
                    if isinstance(n, ast.ClassDef):
                        seen.setdefault(n.name, []).append((None, False, False))
    return {k: v[0] for k, v in seen.items() if len(v) == 1 and v[0][2]
            and not k.startswith('__')}


def keyword_calls(src, defs):
    """Turn the positional arguments (after the first) of calls to functions
    that are defined exactly once in the package into keyword arguments."""
    import ast
    tree = ast.parse(src)
    changed = False
    for n in ast.walk(tree):
        if not isinstance(n, ast.Call) or any(
                isinstance(a, ast.Starred) for a in n.args) or any(
                k.arg is None for k in n.keywords):
            continue
        name, shift = None, 0
        if isinstance(n.func, ast.Name):
            name = n.func.id
        elif isinstance(n.func, ast.Attribute) and isinstance(
                n.func.value, ast.Name) and n.func.value.id == 'self':
            name, shift = n.func.attr, 1
        d = defs.get(name)
        if d is None or d[1] != bool(shift):
            continue
        params = d[0][shift:]
        if len(n.args) < 2 or len(n.args) > len(params):
            continue
        used = {k.arg for k in n.keywords}
        names = params[1:len(n.args)]
        if used & set(names):
            continue
        new_kw = [ast.keyword(arg=p_, value=a)
                  for p_, a in zip(names, n.args[1:])]
        n.args = n.args[:1]
        n.keywords = new_kw + n.keywords
        changed = True
    return ast.unparse(tree) + '\n' if changed else src


def swap_if_branches(src):
    """`if c: A else: B` -> `if not c: B else: A` for every two-armed `if`
    whose else-arm is not an `elif` chain, and the same for conditional
    expressions."""
    import ast
    tree = ast.parse(src)

    class T(ast.NodeTransformer):
        def visit_If(self, n):
            self.generic_visit(n)
            if n.orelse and not (len(n.orelse) == 1 and isinstance(
                    n.orelse[0], ast.If)):
                n.test = ast.UnaryOp(op=ast.Not(), operand=n.test)
                n.body, n.orelse = n.orelse, n.body
            return n

        def visit_IfExp(self, n):
            self.generic_visit(n)
            n.test = ast.UnaryOp(op=ast.Not(), operand=n.test)
            n.body, n.orelse = n.orelse, n.body
            return n

    tree = ast.fix_missing_locations(T().visit(tree))
    return ast.unparse(tree) + '\n'


def split_tuple_assignments(src):
    """`a, b = x, y` -> `a = x` / `b = y` when no target name occurs in the
    values (so the order of evaluation does not matter)."""
    import ast
    tree = ast.parse(src)

    class T(ast.NodeTransformer):
        def visit_Assign(self, n):
            if len(n.targets) == 1 and isinstance(
                    n.targets[0], ast.Tuple) and isinstance(
                    n.value, ast.Tuple) and len(n.targets[0].elts) == len(
                    n.value.elts) and not any(isinstance(
                        e, ast.Starred) for e in n.targets[0].elts +
                        n.value.elts):
                tn = {x.id for t in n.targets[0].elts for x in ast.walk(t)
                      if isinstance(x, ast.Name)}
                vn = {x.id for v in n.value.elts for x in ast.walk(v)
                      if isinstance(x, ast.Name)}
                if not (tn & vn) and all(isinstance(t, ast.Name)
                                         for t in n.targets[0].elts):
                    return [ast.copy_location(ast.Assign(
                        targets=[t], value=v), n)
                        for t, v in zip(n.targets[0].elts, n.value.elts)]
            return n

    tree = ast.fix_missing_locations(T().visit(tree))
    return ast.unparse(tree) + '\n'


def join_assignments(src):
    """Two adjacent `a = x` / `b = y` statements with plain-name targets ->
    `a, b = x, y` when neither value mentions the other target."""
    import ast
    tree = ast.parse(src)

    def simple(st):
        return isinstance(st, ast.Assign) and len(st.targets) == 1 and \
            isinstance(st.targets[0], ast.Name) and not isinstance(
                st.value, (ast.Tuple, ast.Yield, ast.YieldFrom, ast.Await))

    def names(e):
        return {x.id for x in ast.walk(e) if isinstance(x, ast.Name)}

    for node in ast.walk(tree):
        for fld in ('body', 'orelse', 'finalbody'):
            stmts = getattr(node, fld, None)
            if not (isinstance(stmts, list) and stmts and isinstance(
                    stmts[0], ast.stmt)):
                continue
            out, i = [], 0
            while i < len(stmts):
                a = stmts[i]
                b = stmts[i + 1] if i + 1 < len(stmts) else None
                if simple(a) and b is not None and simple(b) and \
                        a.targets[0].id != b.targets[0].id and \
                        a.targets[0].id not in names(b.value) and \
                        b.targets[0].id not in names(a.value) and \
                        not isinstance(node, (ast.ClassDef, ast.Module)):
                    out.append(ast.copy_location(ast.Assign(
                        targets=[ast.Tuple(elts=[a.targets[0], b.targets[0]],
                                           ctx=ast.Store())],
                        value=ast.Tuple(elts=[a.value, b.value],
                                        ctx=ast.Load())), a))
                    i += 2
                else:
                    out.append(a)
                    i += 1
            setattr(node, fld, out)
    return ast.unparse(ast.fix_missing_locations(tree)) + '\n'


def comprehensions_to_loops(src):
    """`name = [e for x in it if c]` (statement level, one generator) ->
    `name = []` + an explicit loop that appends."""
    import ast
    tree = ast.parse(src)

    class T(ast.NodeTransformer):
        def visit_Assign(self, n):
            v = n.value
            if len(n.targets) == 1 and isinstance(
                    n.targets[0], ast.Name) and isinstance(
                    v, (ast.ListComp, ast.SetComp)) and len(
                    v.generators) == 1 and not v.generators[0].is_async:
                name = n.targets[0].id
                g = v.generators[0]
                used = {x.id for x in ast.walk(v) if isinstance(x, ast.Name)}
                if name in used:
                    return n
                is_set = isinstance(v, ast.SetComp)
                app = ast.Expr(ast.Call(
                    func=ast.Attribute(value=ast.Name(id=name, ctx=ast.Load()),
                                       attr='add' if is_set else 'append',
                                       ctx=ast.Load()),
                    args=[v.elt], keywords=[]))
                body = [app]
                for c in reversed(g.ifs):
                    body = [ast.If(test=c, body=body, orelse=[])]
                loop = ast.For(target=g.target, iter=g.iter, body=body,
                               orelse=[])
                init = ast.Assign(
                    targets=[ast.Name(id=name, ctx=ast.Store())],
                    value=ast.Call(func=ast.Name(id='set', ctx=ast.Load()),
                                   args=[], keywords=[]) if is_set else
                    ast.List(elts=[], ctx=ast.Load()))
                return [ast.copy_location(init, n), ast.copy_location(loop, n)]
            return n

    tree = ast.fix_missing_locations(T().visit(tree))
    return ast.unparse(tree) + '\n'


def _transform(dst, how):
    """Whole-tree behaviour-preserving rewrites."""
    import ast
    defs = _unique_defs(dst) if how == 'kwcalls' else None
    priv = _private_defs(dst) if how == 'renamepriv' else None
    pplan = _param_rename_plan(dst) if how == 'renameparams' else None
    for dp, dn, fn in os.walk(dst):
        for f in fn:
            if not f.endswith('.py'):
                continue
            path = os.path.join(dp, f)
            with open(path) as fh:
                src = fh.read()
            if how == 'unparse':
                # re-print every module from its AST: comments, layout, quote
                # style, parenthesisation and line numbers all change
                new = ast.unparse(ast.parse(src)) + '\n'
            elif how == 'rename':
                new = rename_locals(src)
            elif how == 'alias':
                new = rename_import_aliases(src)
            elif how == 'kwcalls':
                new = keyword_calls(src, defs)
            elif how == 'swapif':
                new = swap_if_branches(src)
            elif how == 'splitassign':
                new = split_tuple_assignments(src)
            elif how == 'comp2loop':
                new = comprehensions_to_loops(src)
            elif how == 'joinassign':
                new = join_assignments(src)
            elif how == 'renamepriv':
                new = rename_private_defs(src, priv)
            elif how == 'tails':
                new = extract_tails(src)
            elif how == 'flags':
                new = forelse_to_flags(src)
            elif how == 'swapassign':
                new = swap_independent_assignments(src)
            elif how == 'hoistconsts':
                new = hoist_constants(src)
            elif how == 'dictcomps':
                new = dict_literals_to_comprehensions(src)
            elif how == 'tablestmts':
                new = tables_by_statements(src)
            elif how == 'renameparams':
                new = rename_private_params(src, pplan)
            elif how == 'heads':
                new = extract_heads(src)
            elif how == 'yoda':
                new = yoda_and_demorgan(src)
            elif how == 'predicates':
                new = extract_predicates(src)
            elif how == 'nestguards':
                new = nest_guards(src)
            elif how == 'ifexpstmt':
                new = ifexp_to_statements(src)
            elif how == 'ctorcomps':
                new = comps_to_constructors(src)
            elif how == 'calltables':
                new = calls_to_table_loops(src)
            elif how == 'guards':
                new = guard_clauses(src)
            elif how == 'nameargs':
                new = name_call_arguments(src)
            elif how == 'lambdas':
                new = hoist_module_lambdas(src)
            elif how == 'dictloops':
                new = dictcomps_to_loops(src)
            elif how == 'fstrings':
                new = format_to_fstrings(src)
            elif how == 'shift':
                # push every line down (line numbers change, nothing else)
                new = '# moved\n' * 7 + src if not src.startswith('#!') else \
                    src.split('\n', 1)[0] + '\n' + '# moved\n' * 7 + \
                    src.split('\n', 1)[1]
            else:
                raise ValueError(how)
            with open(path, 'w') as fh:
                fh.write(new)


def _private_defs(dst):
    """Names of the private functions, methods, module constants and class
    attributes defined anywhere in the package copy (not dunder names, and not
    names that also occur as a string constant - those may be looked up by
    text, e.g. through getattr)."""
    import ast
    from .anchors import definitions
    names, strings = set(), set()
    for dp, dn, fn in os.walk(dst):
        for f in fn:
            if f.endswith('.py'):
                with open(os.path.join(dp, f)) as fh:
                    tree = ast.parse(fh.read())
                names |= {d[2] for d in definitions(tree)}
                strings |= {n.value for n in ast.walk(tree) if isinstance(
                    n, ast.Constant) and isinstance(n.value, str)}
    return {n for n in names if n not in strings}


def rename_private_defs(src, names):
    """Every private definition of the package gets a new name (`_x` ->
    `_x_rn7`), all uses updated: the rename a maintainer does with an IDE."""
    import ast
    tree = ast.parse(src)
    for n in ast.walk(tree):
        if isinstance(n, ast.Name) and n.id in names:
            n.id += '_rn7'
        elif isinstance(n, ast.Attribute) and n.attr in names:
            n.attr += '_rn7'
        elif isinstance(n, (ast.FunctionDef, ast.AsyncFunctionDef)) and \
                n.name in names:
            n.name += '_rn7'
        elif isinstance(n, ast.arg) and n.arg in names:
            n.arg += '_rn7'
        elif isinstance(n, ast.keyword) and n.arg in names:
            n.arg += '_rn7'
        elif isinstance(n, ast.alias):
            if n.name in names:
                n.name += '_rn7'
            if n.asname in names:
                n.asname += '_rn7'
    return ast.unparse(tree) + '\n'


def extract_tails(src):
    """Every function whose body has at least four statements hands the second
    half of its body to a new private helper and returns what it returns
    (`return _f_tail(a, b)` / `return self._f_tail(a, b)`), the helper's
    parameters being the locals of the first half that the second half reads.
    The extraction a maintainer does when a function has grown too long."""
    import ast
    tree = ast.parse(src)

    def bound_names(stmts):
        """names bound in this scope by the statements (nested scopes only
        contribute their own name)"""
        out = set()
        work = list(stmts)
        while work:
            n = work.pop()
            if isinstance(n, (ast.FunctionDef, ast.AsyncFunctionDef,
                              ast.ClassDef)):
                out.add(n.name)
                continue
            if isinstance(n, (ast.Lambda, ast.ListComp, ast.SetComp,
                              ast.DictComp, ast.GeneratorExp)):
                continue
            if isinstance(n, ast.Name) and isinstance(
                    n.ctx, (ast.Store, ast.Del)):
                out.add(n.id)
            elif isinstance(n, ast.alias):
                out.add((n.asname or n.name).split('.')[0])
            elif isinstance(n, ast.ExceptHandler) and n.name:
                out.add(n.name)
            work.extend(ast.iter_child_nodes(n))
        return out

    def ok_tail(fn, stmts):
        for st in stmts:
            for n in ast.walk(st):
                if isinstance(n, (ast.Yield, ast.YieldFrom, ast.Await,
                                  ast.Global, ast.Nonlocal)):
                    return False
                if isinstance(n, ast.Call) and isinstance(
                        n.func, ast.Name) and n.func.id in (
                        'super', 'locals', 'vars', 'eval', 'exec'):
                    return False
                if isinstance(n, ast.Name) and n.id == '__class__':
                    return False
        return True

    def split(fn, in_class):
        body = fn.body
        doc = 1 if (body and isinstance(body[0], ast.Expr) and isinstance(
            body[0].value, ast.Constant) and isinstance(
            body[0].value.value, str)) else 0
        real = body[doc:]
        if len(real) < 4 or isinstance(fn, ast.AsyncFunctionDef):
            return None
        if any(isinstance(n, (ast.Yield, ast.YieldFrom)) for n in ast.walk(fn)):
            return None
        k = len(real) // 2
        head, tail = real[:k], real[k:]
        if not ok_tail(fn, tail):
            return None
        a = fn.args
        params = [x.arg for x in a.posonlyargs + a.args + a.kwonlyargs]
        if a.vararg:
            params.append(a.vararg.arg)
        if a.kwarg:
            params.append(a.kwarg.arg)
        is_static = any(isinstance(d, ast.Name) and d.id in (
            'staticmethod', 'classmethod') for d in fn.decorator_list)
        known = set(params) | bound_names(head)
        # names the head binds on every path: top-level simple statements
        sure = set(params)
        for st in head:
            if isinstance(st, (ast.Assign, ast.AugAssign, ast.AnnAssign,
                               ast.Import, ast.ImportFrom, ast.FunctionDef,
                               ast.ClassDef)):
                sure |= bound_names([st])
            elif isinstance(st, ast.With):
                for it in st.items:
                    if it.optional_vars is not None:
                        sure |= bound_names([it.optional_vars])
        used = []
        for st in tail:
            for n in ast.walk(st):
                if isinstance(n, ast.Name) and n.id in known and \
                        n.id not in used:
                    used.append(n.id)
        if any(u not in sure for u in used):
            return None   # a name the head binds only on some paths
        selfn = params[0] if (in_class and not is_static and params) else None
        if in_class and (is_static or not params):
            return None   # keep it simple: plain methods only
        args = [u for u in used if u != selfn]
        name = '_t7_%s' % fn.name
        hp = ([ast.arg(arg=selfn)] if selfn else []) + [
            ast.arg(arg=u) for u in args]
        helper = ast.FunctionDef(
            name=name, args=ast.arguments(
                posonlyargs=[], args=hp, vararg=None, kwonlyargs=[],
                kw_defaults=[], kwarg=None, defaults=[]),
            body=tail, decorator_list=[], returns=None, type_comment=None)
        func = ast.Attribute(value=ast.Name(id=selfn, ctx=ast.Load()),
                             attr=name, ctx=ast.Load()) if selfn else \
            ast.Name(id=name, ctx=ast.Load())
        call = ast.Return(value=ast.Call(
            func=func, args=[ast.Name(id=u, ctx=ast.Load()) for u in args],
            keywords=[]))
        fn.body = body[:doc] + head + [call]
        return helper

    def do(stmts, in_class):
        out = []
        for st in stmts:
            if isinstance(st, ast.FunctionDef):
                h = split(st, in_class)
                if h is not None:
                    out.append(h)
            elif isinstance(st, ast.ClassDef) and not in_class:
                st.body = do(st.body, True)
            out.append(st)
        return out

    tree.body = do(tree.body, False)
    return ast.unparse(ast.fix_missing_locations(tree)) + '\n'


def forelse_to_flags(src):
    """`for ...: ... break ... else: BODY` -> a flag set before every `break`
    of that loop and tested after it."""
    import ast
    tree = ast.parse(src)
    n = [0]

    def breaks_of(loop):
        out = []

        def rec(stmts):
            for i, st in enumerate(stmts):
                if isinstance(st, ast.Break):
                    out.append((stmts, i))
                if isinstance(st, (ast.For, ast.While, ast.FunctionDef,
                                   ast.AsyncFunctionDef, ast.ClassDef)):
                    continue
                for fld in ('body', 'orelse', 'finalbody'):
                    sub = getattr(st, fld, None)
                    if isinstance(sub, list) and sub and isinstance(
                            sub[0], ast.stmt):
                        rec(sub)
                for h in getattr(st, 'handlers', []) or []:
                    rec(h.body)
        rec(loop.body)
        return out

    for holder in ast.walk(tree):
        for fld in ('body', 'orelse', 'finalbody'):
            stmts = getattr(holder, fld, None)
            if not (isinstance(stmts, list) and stmts and isinstance(
                    stmts[0], ast.stmt)):
                continue
            i = 0
            while i < len(stmts):
                lp = stmts[i]
                if isinstance(lp, (ast.For, ast.While)) and lp.orelse:
                    brk = breaks_of(lp)
                    if brk:
                        n[0] += 1
                        flag = '_brk%d' % n[0]
                        for lst, j in sorted(brk, key=lambda x: -x[1]):
                            lst.insert(j, ast.Assign(
                                targets=[ast.Name(id=flag, ctx=ast.Store())],
                                value=ast.Constant(value=True)))
                        body = lp.orelse
                        lp.orelse = []
                        stmts[i:i + 1] = [
                            ast.Assign(targets=[ast.Name(id=flag,
                                                         ctx=ast.Store())],
                                       value=ast.Constant(value=False)),
                            lp,
                            ast.If(test=ast.UnaryOp(
                                op=ast.Not(), operand=ast.Name(
                                    id=flag, ctx=ast.Load())),
                                body=body, orelse=[])]
                        i += 3
                        continue
                i += 1
    return ast.unparse(ast.fix_missing_locations(tree)) + '\n'


def format_to_fstrings(src):
    """`'a%sb' % x`, `'a%sb%s' % (x, y)` and `'a{}b'.format(x)` -> f-strings
    (plain %s / {} placeholders only)."""
    import ast
    import re as _re
    tree = ast.parse(src)

    def simple(e):
        # what may sit inside the braces of an f-string on every Python >= 3.8
        s = ast.unparse(e)
        return '\\' not in s and '\n' not in s and not any(
            isinstance(x, (ast.Lambda, ast.Yield, ast.Await, ast.NamedExpr,
                           ast.JoinedStr, ast.Starred)) for x in ast.walk(e))

    class T(ast.NodeTransformer):
        def visit_BinOp(self, n):
            self.generic_visit(n)
            if isinstance(n.op, ast.Mod) and isinstance(
                    n.left, ast.Constant) and isinstance(n.left.value, str):
                t = n.left.value
                if _re.search(r'%[^s%]', t) or '{' in t or '}' in t:
                    return n
                args = list(n.right.elts) if isinstance(
                    n.right, ast.Tuple) else [n.right]
                parts = _re.split(r'(%s|%%)', t)
                if parts.count('%s') != len(args) or isinstance(
                        n.right, (ast.Dict, ast.Name, ast.Call,
                                  ast.Attribute, ast.Subscript)) and \
                        parts.count('%s') != 1:
                    return n
                if not isinstance(n.right, ast.Tuple) and not isinstance(
                        n.right, (ast.Constant, ast.Name, ast.Attribute,
                                  ast.Subscript, ast.Call, ast.BinOp)):
                    return n
                if isinstance(n.right, (ast.Name, ast.Attribute,
                                        ast.Subscript, ast.Call)):
                    return n   # could be a tuple at run time
                if not all(simple(a) for a in args):
                    return n
                vals, k = [], 0
                for p_ in parts:
                    if p_ == '%s':
                        vals.append(ast.FormattedValue(
                            value=args[k], conversion=-1, format_spec=None))
                        k += 1
                    elif p_ == '%%':
                        vals.append(ast.Constant(value='%'))
                    elif p_:
                        vals.append(ast.Constant(value=p_))
                return ast.copy_location(ast.JoinedStr(values=vals), n)
            return n

        def visit_Call(self, n):
            self.generic_visit(n)
            if isinstance(n.func, ast.Attribute) and n.func.attr == 'format' \
                    and isinstance(n.func.value, ast.Constant) and isinstance(
                    n.func.value.value, str) and not n.keywords and not any(
                    isinstance(a, ast.Starred) for a in n.args):
                t = n.func.value.value
                if _re.search(r'\{[^{}]+\}', t) or '{{' in t or '}}' in t:
                    return n
                parts = _re.split(r'(\{\})', t)
                if parts.count('{}') != len(n.args) or not all(
                        simple(a) for a in n.args):
                    return n
                vals, k = [], 0
                for p_ in parts:
                    if p_ == '{}':
                        vals.append(ast.FormattedValue(
                            value=n.args[k], conversion=-1, format_spec=None))
                        k += 1
                    elif p_:
                        vals.append(ast.Constant(value=p_))
                return ast.copy_location(ast.JoinedStr(values=vals), n)
            return n

    tree = T().visit(tree)
    return ast.unparse(ast.fix_missing_locations(tree)) + '\n'


def hoist_module_lambdas(src):
    """Every lambda written in a module-level statement (registration tables,
    keyword arguments of the wrappers, default values of module-level
    functions) becomes a named module-level function defined just before."""
    import ast
    tree = ast.parse(src)
    n = [0]
    out = []

    class T(ast.NodeTransformer):
        def __init__(self):
            self.defs = []

        def visit_Lambda(self, lam):
            self.generic_visit(lam)
            n[0] += 1
            name = '_lam%d_h8' % n[0]
            self.defs.append(ast.FunctionDef(
                name=name, args=lam.args,
                body=[ast.Return(value=lam.body)], decorator_list=[],
                returns=None, type_comment=None))
            return ast.copy_location(ast.Name(id=name, ctx=ast.Load()), lam)

        def visit_FunctionDef(self, fn):
            # only what is evaluated when the def statement runs
            fn.args.defaults = [self.visit(d) for d in fn.args.defaults]
            fn.args.kw_defaults = [self.visit(d) if d is not None else None
                                   for d in fn.args.kw_defaults]
            fn.decorator_list = [self.visit(d) for d in fn.decorator_list]
            return fn

        def visit_ClassDef(self, c):
            return c      # class bodies see class-level names: left alone

    for st in tree.body:
        t = T()
        st2 = t.visit(st)
        out.extend(t.defs)
        out.append(st2)
    tree.body = out
    return ast.unparse(ast.fix_missing_locations(tree)) + '\n'


def dictcomps_to_loops(src):
    """`name = {k: v for x in it if c}` (statement level, one generator) ->
    `name = {}` and a loop with item assignments."""
    import ast
    tree = ast.parse(src)

    class T(ast.NodeTransformer):
        def visit_Assign(self, n):
            v = n.value
            if len(n.targets) == 1 and isinstance(
                    n.targets[0], ast.Name) and isinstance(
                    v, ast.DictComp) and len(v.generators) == 1 and \
                    not v.generators[0].is_async:
                g = v.generators[0]
                name = n.targets[0].id
                used = {x.id for x in ast.walk(v) if isinstance(x, ast.Name)}
                if name in used:
                    return n
                store = ast.Assign(targets=[ast.Subscript(
                    value=ast.Name(id=name, ctx=ast.Load()), slice=v.key,
                    ctx=ast.Store())], value=v.value)
                body = [store]
                for c in reversed(g.ifs):
                    body = [ast.If(test=c, body=body, orelse=[])]
                loop = ast.For(target=g.target, iter=g.iter, body=body,
                               orelse=[], type_comment=None)
                init = ast.Assign(targets=[ast.Name(id=name, ctx=ast.Store())],
                                  value=ast.Dict(keys=[], values=[]))
                return [ast.copy_location(init, n), ast.copy_location(loop, n)]
            return n

        def visit_ClassDef(self, c):
            self.generic_visit(c)
            return c

    # only inside functions: at module / class level the loop variables would
    # become module / class attributes
    class F(ast.NodeTransformer):
        def visit_FunctionDef(self, fn):
            fn.body = [x for st in fn.body for x in (
                lambda r: r if isinstance(r, list) else [r])(T().visit(st))]
            return fn

    tree = F().visit(tree)
    return ast.unparse(ast.fix_missing_locations(tree)) + '\n'


def guard_clauses(src):
    """`if c: <ends in return/raise/continue/break> else: B` -> the `if`
    without else, followed by B; `if c: A else: <ends in ...>` -> `if not c:
    <...>` followed by A."""
    import ast
    tree = ast.parse(src)

    def term(stmts):
        return bool(stmts) and isinstance(
            stmts[-1], (ast.Return, ast.Raise, ast.Continue, ast.Break))

    def do(stmts):
        out = []
        for st in stmts:
            for fld in ('body', 'orelse', 'finalbody'):
                sub = getattr(st, fld, None)
                if isinstance(sub, list) and sub and isinstance(
                        sub[0], ast.stmt):
                    setattr(st, fld, do(sub))
            for h in getattr(st, 'handlers', []) or []:
                h.body = do(h.body)
            if isinstance(st, ast.If) and st.orelse and term(st.body):
                rest, st.orelse = st.orelse, []
                out.append(st)
                out.extend(rest)
            elif isinstance(st, ast.If) and st.orelse and term(st.orelse):
                rest = st.body
                st.test = ast.UnaryOp(op=ast.Not(), operand=st.test)
                st.body, st.orelse = st.orelse, []
                out.append(st)
                out.extend(rest)
            else:
                out.append(st)
        return out

    tree.body = do(tree.body)
    return ast.unparse(ast.fix_missing_locations(tree)) + '\n'


def name_call_arguments(src):
    """`f(g(x), y)` as a whole statement -> `_t1 = g(x)` / `f(_t1, y)`: the
    first argument that is itself a call gets a name (functions only)."""
    import ast
    tree = ast.parse(src)
    n = [0]

    def do(stmts):
        out = []
        for st in stmts:
            for fld in ('body', 'orelse', 'finalbody'):
                sub = getattr(st, fld, None)
                if isinstance(sub, list) and sub and isinstance(
                        sub[0], ast.stmt) and not isinstance(
                        st, ast.ClassDef):
                    setattr(st, fld, do(sub))
            for h in getattr(st, 'handlers', []) or []:
                h.body = do(h.body)
            call = None
            if isinstance(st, (ast.Expr, ast.Return)) and isinstance(
                    st.value, ast.Call):
                call = st.value
            elif isinstance(st, ast.Assign) and isinstance(
                    st.value, ast.Call) and len(st.targets) == 1 and \
                    isinstance(st.targets[0], ast.Name):
                call = st.value
            if call is not None and isinstance(
                    call.func, (ast.Name, ast.Attribute)) and call.args and \
                    isinstance(call.args[0], ast.Call) and not any(
                    isinstance(x, (ast.Yield, ast.YieldFrom, ast.Await,
                                   ast.NamedExpr, ast.Starred))
                    for x in ast.walk(call)) and not (
                    isinstance(call.func, ast.Name) and
                    call.func.id in ('super', 'locals', 'vars')):
                n[0] += 1
                t = '_t%d_n9' % n[0]
                out.append(ast.Assign(
                    targets=[ast.Name(id=t, ctx=ast.Store())],
                    value=call.args[0]))
                call.args[0] = ast.Name(id=t, ctx=ast.Load())
            out.append(st)
        return out

    class F(ast.NodeTransformer):
        def visit_FunctionDef(self, fn):
            self.generic_visit(fn)
            fn.body = do(fn.body)
            return fn

    tree = F().visit(tree)
    return ast.unparse(ast.fix_missing_locations(tree)) + '\n'


def comps_to_constructors(src):
    """`[e for ..]` -> `list(e for ..)`, `{e for ..}` -> `set(e for ..)`,
    `{k: v for ..}` -> `dict((k, v) for ..)` inside functions (where the
    builtins are not shadowed)."""
    import ast
    tree = ast.parse(src)
    shadow = {n.id for n in ast.walk(tree) if isinstance(n, ast.Name)
              and isinstance(n.ctx, ast.Store)} | {
        a.arg for a in ast.walk(tree) if isinstance(a, ast.arg)}

    class T(ast.NodeTransformer):
        def visit_ListComp(self, n):
            self.generic_visit(n)
            if 'list' in shadow:
                return n
            return ast.copy_location(ast.Call(
                func=ast.Name(id='list', ctx=ast.Load()),
                args=[ast.GeneratorExp(elt=n.elt, generators=n.generators)],
                keywords=[]), n)

        def visit_SetComp(self, n):
            self.generic_visit(n)
            if 'set' in shadow:
                return n
            return ast.copy_location(ast.Call(
                func=ast.Name(id='set', ctx=ast.Load()),
                args=[ast.GeneratorExp(elt=n.elt, generators=n.generators)],
                keywords=[]), n)

        def visit_DictComp(self, n):
            self.generic_visit(n)
            if 'dict' in shadow:
                return n
            return ast.copy_location(ast.Call(
                func=ast.Name(id='dict', ctx=ast.Load()),
                args=[ast.GeneratorExp(elt=ast.Tuple(
                    elts=[n.key, n.value], ctx=ast.Load()),
                    generators=n.generators)], keywords=[]), n)

    class F(ast.NodeTransformer):
        def visit_FunctionDef(self, fn):
            fn.body = [T().visit(st) for st in fn.body]
            return fn

        def visit_ClassDef(self, c):
            self.generic_visit(c)
            return c

    tree = F().visit(tree)
    return ast.unparse(ast.fix_missing_locations(tree)) + '\n'


def calls_to_table_loops(src):
    """A run of two or more consecutive call statements with the same callee
    and the same argument layout becomes a loop over a table of the
    arguments (inside functions; arguments that are constants, names or
    attribute chains only)."""
    import ast
    tree = ast.parse(src)
    n = [0]

    def simple(e):
        return isinstance(e, (ast.Constant, ast.Name)) or (
            isinstance(e, ast.Attribute) and simple(e.value)) or (
            isinstance(e, (ast.List, ast.Tuple)) and all(
                simple(x) for x in e.elts))

    def layout(st):
        if not (isinstance(st, ast.Expr) and isinstance(st.value, ast.Call)):
            return None
        c = st.value
        if not isinstance(c.func, (ast.Name, ast.Attribute)) or any(
                isinstance(a, ast.Starred) for a in c.args) or any(
                k.arg is None for k in c.keywords):
            return None
        vals = list(c.args) + [k.value for k in c.keywords]
        if not vals or not all(simple(v) for v in vals):
            return None
        return (ast.dump(c.func), len(c.args),
                tuple(k.arg for k in c.keywords))

    def do(stmts):
        out, i = [], 0
        while i < len(stmts):
            st = stmts[i]
            for fld in ('body', 'orelse', 'finalbody'):
                sub = getattr(st, fld, None)
                if isinstance(sub, list) and sub and isinstance(
                        sub[0], ast.stmt) and not isinstance(
                        st, ast.ClassDef):
                    setattr(st, fld, do(sub))
            for h in getattr(st, 'handlers', []) or []:
                h.body = do(h.body)
            lay = layout(st)
            j = i + 1
            while lay is not None and j < len(stmts) and \
                    layout(stmts[j]) == lay:
                j += 1
            if lay is not None and j - i >= 2:
                run = stmts[i:j]
                c0 = run[0].value
                nv = len(c0.args) + len(c0.keywords)
                # columns that differ become loop variables
                cols = []
                for k in range(nv):
                    vals = [(list(r.value.args) + [kw.value for kw in
                                                   r.value.keywords])[k]
                            for r in run]
                    if len({ast.dump(v) for v in vals}) > 1:
                        cols.append(k)
                if cols:
                    n[0] += 1
                    names = ['_c%d_%d_l5' % (n[0], k) for k in cols]
                    rows = []
                    for r in run:
                        vals = list(r.value.args) + [
                            kw.value for kw in r.value.keywords]
                        row = [vals[k] for k in cols]
                        rows.append(ast.Tuple(elts=row, ctx=ast.Load())
                                    if len(row) > 1 else row[0])
                    import copy
                    call = copy.deepcopy(c0)
                    for nm, k in zip(names, cols):
                        ref = ast.Name(id=nm, ctx=ast.Load())
                        if k < len(call.args):
                            call.args[k] = ref
                        else:
                            call.keywords[k - len(call.args)].value = ref
                    target = ast.Tuple(elts=[ast.Name(id=x, ctx=ast.Store())
                                             for x in names],
                                       ctx=ast.Store()) if len(names) > 1 \
                        else ast.Name(id=names[0], ctx=ast.Store())
                    out.append(ast.For(
                        target=target,
                        iter=ast.Tuple(elts=rows, ctx=ast.Load()),
                        body=[ast.Expr(value=call)], orelse=[],
                        type_comment=None))
                    i = j
                    continue
            out.append(st)
            i += 1
        return out

    class F(ast.NodeTransformer):
        def visit_FunctionDef(self, fn):
            self.generic_visit(fn)
            fn.body = do(fn.body)
            return fn

    tree = F().visit(tree)
    return ast.unparse(ast.fix_missing_locations(tree)) + '\n'


def nest_guards(src):
    """The reverse of guard clauses: `if c: <return/raise/continue/break>`
    followed by more statements of the same block -> `if c: ... else: <the
    rest>` (innermost first)."""
    import ast
    tree = ast.parse(src)

    def term(stmts):
        return bool(stmts) and isinstance(
            stmts[-1], (ast.Return, ast.Raise, ast.Continue, ast.Break))

    def do(stmts):
        for st in stmts:
            for fld in ('body', 'orelse', 'finalbody'):
                sub = getattr(st, fld, None)
                if isinstance(sub, list) and sub and isinstance(
                        sub[0], ast.stmt):
                    setattr(st, fld, do(sub))
            for h in getattr(st, 'handlers', []) or []:
                h.body = do(h.body)
        for i in range(len(stmts) - 1, -1, -1):
            st = stmts[i]
            if isinstance(st, ast.If) and not st.orelse and term(st.body) \
                    and i + 1 < len(stmts):
                st.orelse = stmts[i + 1:]
                stmts = stmts[:i + 1]
        return stmts

    class F(ast.NodeTransformer):
        def visit_FunctionDef(self, fn):
            self.generic_visit(fn)
            fn.body = do(fn.body)
            return fn

    tree = F().visit(tree)
    return ast.unparse(ast.fix_missing_locations(tree)) + '\n'


def ifexp_to_statements(src):
    """`x = a if c else b` (plain name target, inside functions) -> an
    if/else statement with two assignments; `return a if c else b` -> two
    returns."""
    import ast
    import copy
    tree = ast.parse(src)

    def do(stmts):
        out = []
        for st in stmts:
            for fld in ('body', 'orelse', 'finalbody'):
                sub = getattr(st, fld, None)
                if isinstance(sub, list) and sub and isinstance(
                        sub[0], ast.stmt) and not isinstance(
                        st, ast.ClassDef):
                    setattr(st, fld, do(sub))
            for h in getattr(st, 'handlers', []) or []:
                h.body = do(h.body)
            if isinstance(st, ast.Assign) and len(st.targets) == 1 and \
                    isinstance(st.targets[0], ast.Name) and isinstance(
                    st.value, ast.IfExp) and not any(
                    isinstance(x, ast.Name) and x.id == st.targets[0].id
                    for x in ast.walk(st.value.test)):
                v = st.value
                out.append(ast.If(test=v.test, body=[ast.Assign(
                    targets=copy.deepcopy(st.targets), value=v.body)],
                    orelse=[ast.Assign(targets=copy.deepcopy(st.targets),
                                       value=v.orelse)]))
            elif isinstance(st, ast.Return) and isinstance(
                    st.value, ast.IfExp):
                v = st.value
                out.append(ast.If(test=v.test,
                                  body=[ast.Return(value=v.body)],
                                  orelse=[ast.Return(value=v.orelse)]))
            else:
                out.append(st)
        return out

    class F(ast.NodeTransformer):
        def visit_FunctionDef(self, fn):
            self.generic_visit(fn)
            fn.body = do(fn.body)
            return fn

    tree = F().visit(tree)
    return ast.unparse(ast.fix_missing_locations(tree)) + '\n'


def yoda_and_demorgan(src):
    """`x == 1` -> `1 == x` (==, !=, is, is not with a constant on the right),
    `a <= x <= b` with a plain name in the middle -> `a <= x and x <= b`,
    `not (a and b)` -> `not a or not b` (and the dual) in the tests of if /
    while statements."""
    import ast
    import copy
    tree = ast.parse(src)

    class T(ast.NodeTransformer):
        def visit_Compare(self, n):
            self.generic_visit(n)
            if len(n.ops) == 1 and isinstance(
                    n.ops[0], (ast.Eq, ast.NotEq, ast.Is, ast.IsNot)) and \
                    isinstance(n.comparators[0], ast.Constant) and \
                    not isinstance(n.left, ast.Constant):
                return ast.copy_location(ast.Compare(
                    left=n.comparators[0], ops=n.ops,
                    comparators=[n.left]), n)
            if len(n.ops) == 2 and isinstance(
                    n.comparators[0], ast.Name) and all(isinstance(
                        o, (ast.Lt, ast.LtE, ast.Gt, ast.GtE))
                        for o in n.ops):
                mid = n.comparators[0]
                return ast.copy_location(ast.BoolOp(op=ast.And(), values=[
                    ast.Compare(left=n.left, ops=[n.ops[0]],
                                comparators=[mid]),
                    ast.Compare(left=copy.deepcopy(mid), ops=[n.ops[1]],
                                comparators=[n.comparators[1]])]), n)
            return n

    def demorgan(t):
        if isinstance(t, ast.UnaryOp) and isinstance(
                t.op, ast.Not) and isinstance(t.operand, ast.BoolOp):
            b = t.operand
            new_op = ast.Or() if isinstance(b.op, ast.And) else ast.And()
            return ast.BoolOp(op=new_op, values=[
                ast.UnaryOp(op=ast.Not(), operand=v) for v in b.values])
        return t

    tree = T().visit(tree)
    for n in ast.walk(tree):
        if isinstance(n, (ast.If, ast.While)):
            n.test = demorgan(n.test)
    return ast.unparse(ast.fix_missing_locations(tree)) + '\n'


def extract_predicates(src):
    """The test of an `if` statement that combines conditions over plain
    local names becomes a call of a new private module-level predicate."""
    import ast
    tree = ast.parse(src)
    n = [0]
    new_defs = []

    def pure(e):
        for x in ast.walk(e):
            if isinstance(x, (ast.Call, ast.Lambda, ast.Yield, ast.Await,
                              ast.NamedExpr, ast.ListComp, ast.SetComp,
                              ast.DictComp, ast.GeneratorExp, ast.Starred)):
                # isinstance / len are fine
                if isinstance(x, ast.Call) and isinstance(
                        x.func, ast.Name) and x.func.id in (
                        'isinstance', 'len', 'hasattr'):
                    continue
                return False
        return True

    def locals_of(fn):
        return {a.arg for a in ast.walk(fn.args)
                if isinstance(a, ast.arg)} | {
            x.id for x in ast.walk(fn) if isinstance(x, ast.Name)
            and isinstance(x.ctx, ast.Store)} | {
            (a.asname or a.name).split('.')[0] for a in ast.walk(fn)
            if isinstance(a, ast.alias)} | {
            d.name for d in ast.walk(fn) if isinstance(
                d, (ast.FunctionDef, ast.ClassDef)) and d is not fn} | {
            h.name for h in ast.walk(fn) if isinstance(
                h, ast.ExceptHandler) and h.name}

    class F(ast.NodeTransformer):
        def __init__(self):
            self.stack = []

        def visit_FunctionDef(self, fn):
            self.stack.append(locals_of(fn))
            self.generic_visit(fn)
            local = set().union(*self.stack)
            self.stack.pop()
            own = [x for x in ast.walk(fn)]
            inner = {id(y) for d in ast.walk(fn) if isinstance(
                d, (ast.FunctionDef, ast.Lambda)) and d is not fn
                for y in ast.walk(d)}
            for node in own:
                if id(node) in inner:
                    continue      # handled when that function was visited
                if isinstance(node, ast.If) and isinstance(
                        node.test, ast.BoolOp) and pure(node.test):
                    names = []
                    for x in ast.walk(node.test):
                        if isinstance(x, ast.Name) and x.id in local and \
                                x.id not in names:
                            names.append(x.id)
                    if not names:
                        continue
                    n[0] += 1
                    pname = '_p%d_q4' % n[0]
                    new_defs.append(ast.FunctionDef(
                        name=pname, args=ast.arguments(
                            posonlyargs=[], args=[ast.arg(arg=a)
                                                  for a in names],
                            vararg=None, kwonlyargs=[], kw_defaults=[],
                            kwarg=None, defaults=[]),
                        body=[ast.Return(value=node.test)],
                        decorator_list=[], returns=None, type_comment=None))
                    node.test = ast.Call(
                        func=ast.Name(id=pname, ctx=ast.Load()),
                        args=[ast.Name(id=a, ctx=ast.Load()) for a in names],
                        keywords=[])
            return fn

        def visit_ClassDef(self, c):
            # class-level names are not visible in methods: no scope pushed
            self.generic_visit(c)
            return c

    tree = F().visit(tree)
    # the predicates go after the imports / module constants they may use:
    # at the end of the module (they are only called at run time)
    tree.body = tree.body + new_defs
    return ast.unparse(ast.fix_missing_locations(tree)) + '\n'


def extract_heads(src):
    """The first half of every longer function becomes a new private helper
    that returns the locals the second half needs: `a, b = _h(x, y)`."""
    import ast
    tree = ast.parse(src)

    def bound_names(stmts):
        out = set()
        work = list(stmts)
        while work:
            n = work.pop()
            if isinstance(n, (ast.FunctionDef, ast.AsyncFunctionDef,
                              ast.ClassDef)):
                out.add(n.name)
                continue
            if isinstance(n, (ast.Lambda, ast.ListComp, ast.SetComp,
                              ast.DictComp, ast.GeneratorExp)):
                continue
            if isinstance(n, ast.Name) and isinstance(
                    n.ctx, (ast.Store, ast.Del)):
                out.add(n.id)
            elif isinstance(n, ast.alias):
                out.add((n.asname or n.name).split('.')[0])
            elif isinstance(n, ast.ExceptHandler) and n.name:
                out.add(n.name)
            work.extend(ast.iter_child_nodes(n))
        return out

    def flow_free(stmts):
        # no return / yield / super() / deletion in the part that moves
        for st in stmts:
            for n in ast.walk(st):
                if isinstance(n, (ast.Return, ast.Yield, ast.YieldFrom,
                                  ast.Await, ast.Global, ast.Nonlocal,
                                  ast.Delete)):
                    return False
                if isinstance(n, ast.Call) and isinstance(
                        n.func, ast.Name) and n.func.id in (
                        'super', 'locals', 'vars', 'eval', 'exec'):
                    return False
                if isinstance(n, ast.Name) and n.id == '__class__':
                    return False
        return True

    def split(fn, in_class):
        body = fn.body
        doc = 1 if (body and isinstance(body[0], ast.Expr) and isinstance(
            body[0].value, ast.Constant) and isinstance(
            body[0].value.value, str)) else 0
        real = body[doc:]
        if len(real) < 4 or any(isinstance(n, (ast.Yield, ast.YieldFrom))
                                for n in ast.walk(fn)):
            return None
        k = len(real) // 2
        head, tail = real[:k], real[k:]
        if not flow_free(head):
            return None
        a = fn.args
        params = [x.arg for x in a.posonlyargs + a.args + a.kwonlyargs]
        if a.vararg:
            params.append(a.vararg.arg)
        if a.kwarg:
            params.append(a.kwarg.arg)
        is_static = any(isinstance(d, ast.Name) and d.id in (
            'staticmethod', 'classmethod') for d in fn.decorator_list)
        if in_class and (is_static or not params):
            return None
        # names the head binds on every path (top-level simple statements)
        sure = set()
        for st in head:
            if isinstance(st, (ast.Assign, ast.AnnAssign, ast.Import,
                               ast.ImportFrom, ast.FunctionDef)):
                sure |= bound_names([st])
        maybe = bound_names(head) - sure
        tail_names = {n.id for st in tail for n in ast.walk(st)
                      if isinstance(n, ast.Name)}
        if maybe & tail_names:
            return None       # bound on some paths only: leave it
        outs = [v for v in sorted(sure) if v in tail_names]
        if not outs:
            return None
        selfn = params[0] if in_class else None
        used = []
        for st in head:
            for n in ast.walk(st):
                if isinstance(n, ast.Name) and n.id in params and \
                        n.id not in used and n.id != selfn:
                    used.append(n.id)
        name = '_h7_%s' % fn.name
        hp = ([ast.arg(arg=selfn)] if selfn else []) + [
            ast.arg(arg=u) for u in used]
        ret = ast.Return(value=ast.Tuple(
            elts=[ast.Name(id=v, ctx=ast.Load()) for v in outs],
            ctx=ast.Load()))
        helper = ast.FunctionDef(
            name=name, args=ast.arguments(
                posonlyargs=[], args=hp, vararg=None, kwonlyargs=[],
                kw_defaults=[], kwarg=None, defaults=[]),
            body=head + [ret], decorator_list=[], returns=None,
            type_comment=None)
        func = ast.Attribute(value=ast.Name(id=selfn, ctx=ast.Load()),
                             attr=name, ctx=ast.Load()) if selfn else \
            ast.Name(id=name, ctx=ast.Load())
        call = ast.Assign(
            targets=[ast.Tuple(elts=[ast.Name(id=v, ctx=ast.Store())
                                     for v in outs], ctx=ast.Store())],
            value=ast.Call(func=func, args=[ast.Name(id=u, ctx=ast.Load())
                                            for u in used], keywords=[]))
        fn.body = body[:doc] + [call] + tail
        return helper

    def do(stmts, in_class):
        out = []
        for st in stmts:
            if isinstance(st, ast.FunctionDef):
                h = split(st, in_class)
                if h is not None:
                    out.append(h)
            elif isinstance(st, ast.ClassDef) and not in_class:
                st.body = do(st.body, True)
            out.append(st)
        return out

    tree.body = do(tree.body, False)
    return ast.unparse(ast.fix_missing_locations(tree)) + '\n'


def _param_rename_plan(dst):
    """Private functions / methods of the package copy whose parameters can be
    renamed safely: never called with keyword or ** arguments anywhere."""
    import ast
    kw_called = set()
    names = set()
    for dp, dn, fn in os.walk(dst):
        for f in fn:
            if not f.endswith('.py'):
                continue
            with open(os.path.join(dp, f)) as fh:
                tree = ast.parse(fh.read())
            for n in ast.walk(tree):
                if isinstance(n, ast.Call) and n.keywords:
                    f_ = n.func
                    nm = f_.id if isinstance(f_, ast.Name) else (
                        f_.attr if isinstance(f_, ast.Attribute) else None)
                    if nm:
                        kw_called.add(nm)
                    # functools.partial(f, x=..) binds by keyword too
                    for a in n.args:
                        if isinstance(a, ast.Name):
                            kw_called.add(a.id)
                        elif isinstance(a, ast.Attribute):
                            kw_called.add(a.attr)
                if isinstance(n, ast.FunctionDef) and n.name.startswith(
                        '_') and not n.name.startswith('__'):
                    names.add(n.name)
    return names - kw_called


def rename_private_params(src, plan):
    """Parameters of private functions and methods get new names (`x` ->
    `x_pr6`), every use inside the function updated."""
    import ast
    tree = ast.parse(src)
    SCOPES = (ast.FunctionDef, ast.AsyncFunctionDef, ast.Lambda)

    def rename_in(node, mapping):
        # nested scopes that re-bind the name as their own parameter keep it
        for child in ast.iter_child_nodes(node):
            if isinstance(child, SCOPES):
                own = {a.arg for a in ast.walk(child.args)
                       if isinstance(a, ast.arg)}
                sub = {k: v for k, v in mapping.items() if k not in own}
                for d in child.args.defaults + [
                        x for x in child.args.kw_defaults if x is not None]:
                    rename_expr(d, mapping)
                body = child.body if isinstance(child.body, list) \
                    else [child.body]
                for b in body:
                    rename_expr(b, sub)
                    rename_in(b, sub)
                continue
            if isinstance(child, ast.Name) and child.id in mapping:
                child.id = mapping[child.id]
            rename_in(child, mapping)

    def rename_expr(e, mapping):
        if isinstance(e, ast.Name) and e.id in mapping:
            e.id = mapping[e.id]

    def visit(stmts, in_class):
        for st in stmts:
            if isinstance(st, ast.ClassDef):
                visit(st.body, True)
            elif isinstance(st, ast.FunctionDef) and st.name in plan and \
                    not st.args.kwarg and not st.args.kwonlyargs and not any(
                    isinstance(n, (ast.Global, ast.Nonlocal))
                    for n in ast.walk(st)) and not any(
                    isinstance(n, ast.Call) and isinstance(
                        n.func, ast.Name) and n.func.id in (
                        'locals', 'vars', 'eval', 'exec')
                    for n in ast.walk(st)):
                params = [a for a in st.args.posonlyargs + st.args.args]
                if in_class and params and not any(
                        isinstance(d, ast.Name) and d.id == 'staticmethod'
                        for d in st.decorator_list):
                    params = params[1:]
                if st.args.vararg:
                    params.append(st.args.vararg)
                mapping = {a.arg: a.arg + '_pr6' for a in params}
                for a in params:
                    a.arg = mapping[a.arg]
                for b in st.body:
                    rename_expr(b, mapping)
                    rename_in(b, mapping)

    visit(tree.body, False)
    return ast.unparse(ast.fix_missing_locations(tree)) + '\n'


def tables_by_statements(src):
    """Module- and class-level tables written as dict literals are built item
    by item instead (`T = {}` then `T[k] = v` ...), a registration written as
    `FUNCTIONS[k] = v` becomes `FUNCTIONS.update({k: v})`, and `isinstance(x,
    (A, B))` becomes `isinstance(x, A) or isinstance(x, B)`."""
    import ast
    tree = ast.parse(src)

    def expand(stmts, at_module):
        out = []
        for st in stmts:
            if isinstance(st, ast.ClassDef):
                st.body = expand(st.body, False)
                out.append(st)
                continue
            if isinstance(st, ast.Assign) and len(st.targets) == 1 and \
                    isinstance(st.targets[0], ast.Name) and isinstance(
                    st.value, ast.Dict) and len(st.value.keys) >= 2 and all(
                    k is not None for k in st.value.keys):
                name = st.targets[0].id
                used = {x.id for v in st.value.values for x in ast.walk(v)
                        if isinstance(x, ast.Name)}
                if name not in used:
                    out.append(ast.copy_location(ast.Assign(
                        targets=[ast.Name(id=name, ctx=ast.Store())],
                        value=ast.Dict(keys=[], values=[])), st))
                    for k, v in zip(st.value.keys, st.value.values):
                        out.append(ast.copy_location(ast.Assign(
                            targets=[ast.Subscript(
                                value=ast.Name(id=name, ctx=ast.Load()),
                                slice=k, ctx=ast.Store())], value=v), st))
                    continue
            if at_module and isinstance(st, ast.Assign) and len(
                    st.targets) == 1 and isinstance(
                    st.targets[0], ast.Subscript) and isinstance(
                    st.targets[0].value, ast.Name) and \
                    st.targets[0].value.id in ('FUNCTIONS', 'OPERATORS') \
                    and isinstance(st.targets[0].slice, ast.Constant):
                out.append(ast.copy_location(ast.Expr(value=ast.Call(
                    func=ast.Attribute(value=ast.Name(
                        id=st.targets[0].value.id, ctx=ast.Load()),
                        attr='update', ctx=ast.Load()),
                    args=[ast.Dict(keys=[st.targets[0].slice],
                                   values=[st.value])], keywords=[])), st))
                continue
            out.append(st)
        return out

    tree.body = expand(tree.body, True)

    class T(ast.NodeTransformer):
        def visit_Call(self, n):
            self.generic_visit(n)
            if isinstance(n.func, ast.Name) and n.func.id == 'isinstance' \
                    and len(n.args) == 2 and isinstance(
                    n.args[1], ast.Tuple) and len(n.args[1].elts) >= 2 and \
                    isinstance(n.args[0], ast.Name):
                import copy
                return ast.copy_location(ast.BoolOp(op=ast.Or(), values=[
                    ast.Call(func=ast.Name(id='isinstance', ctx=ast.Load()),
                             args=[copy.deepcopy(n.args[0]), e], keywords=[])
                    for e in n.args[1].elts]), n)
            return n

    tree = T().visit(tree)
    return ast.unparse(ast.fix_missing_locations(tree)) + '\n'


def hoist_constants(src):
    """Literals of function bodies - integers from 2 up, and texts of two or
    more characters - that occur at least twice in the module become private
    module-level constants (`_K1 = 26`), defined before anything else runs."""
    import ast
    tree = ast.parse(src)
    skip = set()
    for n in ast.walk(tree):
        if isinstance(n, ast.JoinedStr):
            skip |= {id(x) for x in ast.walk(n)}
        elif isinstance(n, (ast.FunctionDef, ast.AsyncFunctionDef,
                            ast.ClassDef, ast.Module)) and n.body and \
                isinstance(n.body[0], ast.Expr) and isinstance(
                n.body[0].value, ast.Constant):
            skip.add(id(n.body[0].value))
        elif isinstance(n, (ast.FunctionDef, ast.AsyncFunctionDef)):
            for d in n.decorator_list + n.args.defaults + [
                    x for x in n.args.kw_defaults if x is not None]:
                skip |= {id(x) for x in ast.walk(d)}
        elif isinstance(n, ast.Assign) and any(
                isinstance(t, ast.Name) and t.id == '__slots__'
                for t in n.targets):
            skip |= {id(x) for x in ast.walk(n)}

    def wanted(c):
        v = c.value
        if isinstance(v, bool) or id(c) in skip:
            return False
        if isinstance(v, int):
            return v >= 2
        return isinstance(v, str) and len(v) >= 2

    count = {}
    for fn in ast.walk(tree):
        if isinstance(fn, (ast.FunctionDef, ast.AsyncFunctionDef)):
            for st in fn.body:
                for c in ast.walk(st):
                    if isinstance(c, ast.Constant) and wanted(c):
                        k = (type(c.value).__name__, c.value)
                        count[k] = count.get(k, 0) + 1
    used = {n.id for n in ast.walk(tree) if isinstance(n, ast.Name)}
    names, i = {}, 0
    for k in sorted(k for k, n_ in count.items() if n_ >= 2):
        i += 1
        while '_K%d' % i in used:
            i += 1
        names[k] = '_K%d' % i
    if not names:
        return src

    class T(ast.NodeTransformer):
        def __init__(self):
            self.depth = 0

        def visit_FunctionDef(self, n):
            self.depth += 1
            n.body = [self.visit(st) for st in n.body]
            self.depth -= 1
            return n

        visit_AsyncFunctionDef = visit_FunctionDef

        def visit_Constant(self, c):
            if self.depth and wanted(c):
                k = (type(c.value).__name__, c.value)
                if k in names:
                    return ast.copy_location(
                        ast.Name(id=names[k], ctx=ast.Load()), c)
            return c

        def visit_JoinedStr(self, n):
            return n

    tree = T().visit(tree)
    pos = 0
    body = tree.body
    if body and isinstance(body[0], ast.Expr) and isinstance(
            body[0].value, ast.Constant):
        pos = 1
    while pos < len(body) and isinstance(body[pos], ast.ImportFrom) and \
            body[pos].module == '__future__':
        pos += 1
    defs = [ast.Assign(targets=[ast.Name(id=nm, ctx=ast.Store())],
                       value=ast.Constant(value=k[1]))
            for k, nm in sorted(names.items(), key=lambda kv: kv[1])]
    body[pos:pos] = defs
    return ast.unparse(ast.fix_missing_locations(tree)) + '\n'


def dict_literals_to_comprehensions(src):
    """`{'a': s['a'], 'b': s['b']}` -> `{k: s[k] for k in ('a', 'b')}` (two or
    more constant keys, every value the same key of one plain name)."""
    import ast
    tree = ast.parse(src)

    class T(ast.NodeTransformer):
        def visit_Dict(self, n):
            self.generic_visit(n)
            if len(n.keys) >= 2 and all(
                    isinstance(k, ast.Constant) and isinstance(k.value, str)
                    for k in n.keys) and all(
                    isinstance(v, ast.Subscript) and isinstance(
                        v.value, ast.Name) and isinstance(
                        v.slice, ast.Constant) and v.slice.value == k.value
                    for k, v in zip(n.keys, n.values)) and len(
                    {v.value.id for v in n.values}) == 1 and \
                    n.values[0].value.id != 'k_':
                s_ = n.values[0].value.id
                return ast.copy_location(ast.DictComp(
                    key=ast.Name(id='k_', ctx=ast.Load()),
                    value=ast.Subscript(
                        value=ast.Name(id=s_, ctx=ast.Load()),
                        slice=ast.Name(id='k_', ctx=ast.Load()),
                        ctx=ast.Load()),
                    generators=[ast.comprehension(
                        target=ast.Name(id='k_', ctx=ast.Store()),
                        iter=ast.Tuple(elts=list(n.keys), ctx=ast.Load()),
                        ifs=[], is_async=0)]), n)
            return n

    tree = T().visit(tree)
    return ast.unparse(ast.fix_missing_locations(tree)) + '\n'


def swap_independent_assignments(src):
    """Two adjacent assignments of call-free expressions to different plain
    names, neither mentioning the other's target, change places."""
    import ast
    tree = ast.parse(src)

    def simple(st):
        return isinstance(st, ast.Assign) and len(st.targets) == 1 and \
            isinstance(st.targets[0], ast.Name) and not any(isinstance(
                x, (ast.Call, ast.Yield, ast.YieldFrom, ast.Await,
                    ast.NamedExpr, ast.Subscript, ast.Attribute, ast.BinOp,
                    ast.Compare, ast.ListComp, ast.DictComp, ast.SetComp,
                    ast.GeneratorExp)) for x in ast.walk(st.value))

    def names(e):
        return {x.id for x in ast.walk(e) if isinstance(x, ast.Name)}

    def do(stmts):
        i = 0
        while i + 1 < len(stmts):
            a, b = stmts[i], stmts[i + 1]
            if simple(a) and simple(b) and \
                    a.targets[0].id != b.targets[0].id and \
                    a.targets[0].id not in names(b.value) and \
                    b.targets[0].id not in names(a.value):
                stmts[i], stmts[i + 1] = b, a
                i += 2
            else:
                i += 1
        for st in stmts:
            for fld in ('body', 'orelse', 'finalbody'):
                sub = getattr(st, fld, None)
                if isinstance(sub, list) and sub and isinstance(
                        sub[0], ast.stmt) and not isinstance(
                        st, ast.ClassDef):
                    do(sub)
            for h in getattr(st, 'handlers', []) or []:
                do(h.body)

    for n in ast.walk(tree):
        if isinstance(n, ast.FunctionDef):
            do(n.body)
    return ast.unparse(ast.fix_missing_locations(tree)) + '\n'


def rename_import_aliases(src):
    """`import numpy as np` -> `import numpy as np_al9` (and every use): a
    behaviour-preserving edit that defeats rules matching `np.` as text."""
    import ast
    tree = ast.parse(src)
    aliases = {}
    for n in tree.body:
        if isinstance(n, ast.Import):
            for a in n.names:
                if a.asname and not a.asname.startswith('_'):
                    aliases[a.asname] = a.asname + '_al9'
    if not aliases:
        return src
    bound = set()
    for n in ast.walk(tree):
        if isinstance(n, ast.Name) and isinstance(n.ctx, (ast.Store, ast.Del)):
            bound.add(n.id)
        elif isinstance(n, ast.arg):
            bound.add(n.arg)
        elif isinstance(n, (ast.FunctionDef, ast.ClassDef)):
            bound.add(n.name)
    aliases = {k: v for k, v in aliases.items() if k not in bound}
    for n in ast.walk(tree):
        if isinstance(n, ast.Import):
            for a in n.names:
                if a.asname in aliases:
                    a.asname = aliases[a.asname]
        elif isinstance(n, ast.Name) and n.id in aliases:
            n.id = aliases[n.id]
    return ast.unparse(tree) + '\n'


def make_copy(repo, edits, transform=None):
    """Copy repo/formulas to a temp dir applying edits; returns (dir, status)."""
    tmp = tempfile.mkdtemp(prefix='sa_selftest_')
    dst = os.path.join(tmp, 'formulas')
    shutil.copytree(os.path.join(repo, 'formulas'), dst,
                    ignore=shutil.ignore_patterns('__pycache__', '*.pyc'))
    if transform and transform.startswith('patch:'):
        p = subprocess.run(['patch', '-p1', '-s', '-i', transform[6:]], cwd=tmp,
                           capture_output=True, text=True)
        if p.returncode:
            return tmp, 'inapplicable: seeded patch no longer applies'
    elif transform:
        _transform(dst, transform)
    for rel, old, new in edits:
        path = os.path.join(tmp, rel)
        try:
            with open(path) as f:
                s = f.read()
        except OSError:
            return tmp, 'inapplicable: %s missing' % rel
        if s.count(old) < 1:
            return tmp, 'inapplicable: fragment not found in %s' % rel
        s = s.replace(old, new, 1)
        try:
            import warnings
            with warnings.catch_warnings():
                warnings.simplefilter('ignore')
                compile(s, path, 'exec')
        except SyntaxError as ex:
            return tmp, 'broken-variant: %s' % ex
        with open(path, 'w') as f:
            f.write(s)
    return tmp, 'ok'


def run_check(prop, repo_dir):
    """Run one property check on repo_dir in a subprocess; returns (code, findings)."""
    env = dict(os.environ)
    env['VERIF_SELFTEST_CHILD'] = '1'
    cmd = [sys.executable, '-m', 'sa.selftest_child', prop, repo_dir]
    pr = subprocess.run(cmd, cwd=report.VERIF, env=env, capture_output=True,
                        text=True, timeout=300)
    try:
        out = json.loads(pr.stdout.strip().splitlines()[-1])
    except Exception:
        return 2, [], pr.stdout[-2000:] + pr.stderr[-2000:]
    return out['code'], out['findings'], out.get('error', '')


def run_variant(v, repo):
    edits = [tuple(e) for e in v['edits']]
    tmp, status = make_copy(repo, edits, v.get('transform'))
    try:
        if status != 'ok':
            return dict(v, outcome=status.split(':')[0], detail=status)
        code, findings, err = run_check(v['property'], tmp)
    finally:
        shutil.rmtree(tmp, ignore_errors=True)
    new = [f for f in findings if not f['known']]
    res = dict(id=v['id'], property=v['property'], kind=v['kind'],
               expect=v.get('expect'), code=code,
               new_findings=[(f['rule'], f['key']) for f in new])
    if code == 2:
        res['outcome'] = 'analysis-error'
        res['detail'] = err[-400:]
        # a break variant answered by "cannot decide" is not a pass but is
        # acceptable for variants marked may_error
        if v.get('may_error'):
            res['outcome'] = 'ok'
        return res
    if v['kind'] == 'break':
        hit = [f for f in new if v.get('expect') is None or
               f['rule'].startswith(v['expect'])]
        res['outcome'] = 'ok' if (code == 1 and hit) else 'MISSED'
    elif v['kind'] == 'benign':
        res['outcome'] = 'ok' if (code == 0 and not new) else 'FALSE-ALARM'
    elif v['kind'] == 'repair':
        gone = v.get('clears')
        still = [f for f in findings if f['known'] and f['key'] == gone]
        res['outcome'] = 'ok' if (not new and not still) else 'NOT-CLEARED'
    return res


def run_for_property(prop, repo, seed=0, jobs=None):
    variants = [v for v in load_variants() if v['property'] == prop]
    # two whole-tree behaviour-preserving rewrites for every property
    for how in ('unparse', 'shift', 'rename', 'alias', 'kwcalls', 'swapif',
                'splitassign', 'comp2loop', 'joinassign', 'renamepriv',
                'flags', 'fstrings', 'lambdas', 'dictloops', 'guards',
                'nestguards', 'nameargs', 'ctorcomps', 'calltables',
                'ifexpstmt', 'yoda', 'renameparams', 'tablestmts',
                'swapassign', 'hoistconsts', 'dictcomps'):
        variants.append({'id': '%s-benign-%s-all' % (prop.lower(), how),
                         'property': prop, 'kind': 'benign', 'edits': [],
                         'transform': how, 'expect': None, 'clears': None,
                         'may_error': False})
    # the second half of every longer function extracted into a new private
    # helper: no check may report a violation ("cannot decide" is tolerated)
    for how in ('tails', 'heads', 'predicates'):
        variants.append({'id': '%s-benign-%s-all' % (prop.lower(), how),
                         'property': prop, 'kind': 'benign', 'edits': [],
                         'transform': how, 'expect': None, 'clears': None,
                         'may_error': True})
    # seeded changes (from independent sub-agents) this property's check catches
    sdir = os.path.join(report.VERIF, 'seeded')
    if os.path.isdir(sdir):
        for sid in sorted(os.listdir(sdir)):
            mp = os.path.join(sdir, sid, 'meta.json')
            if not os.path.exists(mp):
                continue
            with open(mp) as f:
                meta = json.load(f)
            for d in meta.get('detected_by', []):
                if d['check'] == prop and d.get('exit') == 1:
                    variants.append({
                        'id': 'seed-%s' % sid, 'property': prop, 'kind': 'break',
                        'edits': [], 'transform': 'patch:' + os.path.join(
                            sdir, sid, 'patch.diff'),
                        'expect': None, 'clears': None, 'may_error': False})
    # behaviour-preserving refactorings written by independent sub-agents:
    # no check may report a violation on them ("cannot decide" is tolerated)
    bdir = os.path.join(report.VERIF, 'benign')
    if os.path.isdir(bdir):
        for bid in sorted(os.listdir(bdir)):
            pp = os.path.join(bdir, bid, 'patch.diff')
            if os.path.exists(pp):
                variants.append({
                    'id': 'refactor-%s' % bid, 'property': prop,
                    'kind': 'benign', 'edits': [], 'transform': 'patch:' + pp,
                    'expect': None, 'clears': None, 'may_error': True})
    jobs = jobs or min(16, os.cpu_count() or 4)
    results = []
    with concurrent.futures.ThreadPoolExecutor(max_workers=jobs) as ex:
        for r in ex.map(lambda v: run_variant(v, repo), variants):
            results.append(r)
    summary = {'variants': len(results), 'break_fired': 0, 'benign_silent': 0,
               'repair_clears': 0, 'inapplicable': 0, 'failed': [],
               'warnings': []}
    for r in results:
        o = r['outcome']
        if o in ('inapplicable', 'broken-variant'):
            summary['inapplicable'] += 1
        elif o == 'ok':
            k = {'break': 'break_fired', 'benign': 'benign_silent',
                 'repair': 'repair_clears'}[r['kind']]
            summary[k] += 1
        else:
            summary['failed'].append(r)
            summary['warnings'].append('%s variant %s: %s (code=%s, new=%s)' % (
                r['kind'], r['id'], o, r.get('code'), r.get('new_findings')))
    return summary


def main(argv=None):
    import argparse
    ap = argparse.ArgumentParser()
    ap.add_argument('props', nargs='*')
    ap.add_argument('--repo', default='/repo')
    ap.add_argument('--id')
    a = ap.parse_args(argv)
    variants = load_variants()
    props = [p.upper() for p in a.props] or sorted({v['property'] for v in variants})
    bad = 0
    for p in props:
        if a.id:
            vs = [v for v in variants if v['id'] == a.id]
            for v in vs:
                print(json.dumps(run_variant(v, a.repo), indent=1))
            continue
        s = run_for_property(p, a.repo)
        print('%s: %d variants, break %d, benign %d, repair %d, inapplicable %d, '
              'failed %d' % (p, s['variants'], s.get('break_fired', 0),
                             s.get('benign_silent', 0),
                             s.get('repair_clears', 0),
                             s.get('inapplicable', 0), len(s.get('failed', []))))
        for w in s['warnings']:
            print('   SELFTEST-WARNING', w)
            bad += 1
    return 1 if bad else 0


if __name__ == '__main__':
    sys.exit(main())
