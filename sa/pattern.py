"""Tiny AST pattern matcher: source patterns with metavariables.

A pattern is Python source. Identifiers starting with `__` are metavariables
that bind any *name* (a local may be renamed freely); identifiers starting with
`___` bind any *expression*. A metavariable used twice must bind the same thing.
Everything else must match structurally (ast.dump equality of leaves).

    match('min(int(__rng["r2"]), __m)', node)  ->  {'__rng': 'rng', '__m': 'max_row'} | None
"""
import ast

from .model import own_nodes

_cache = {}


def _parse(pattern, mode):
    key = (pattern, mode)
    if key not in _cache:
        t = ast.parse(pattern, mode='exec')
        if mode == 'expr':
            if len(t.body) != 1 or not isinstance(t.body[0], ast.Expr):
                raise ValueError('not an expression pattern: %s' % pattern)
            _cache[key] = t.body[0].value
        else:
            if len(t.body) != 1:
                raise ValueError('not a single-statement pattern: %s' % pattern)
            _cache[key] = t.body[0]
    return _cache[key]


def _m(p, n, b):
    if isinstance(p, ast.Name) and p.id.startswith('___'):
        d = ast.dump(n) if isinstance(n, ast.AST) else repr(n)
        if p.id in b:
            return b[p.id][0] == d
        b[p.id] = (d, n)
        return True
    if isinstance(p, ast.Name) and p.id.startswith('__'):
        if not isinstance(n, ast.Name):
            return False
        if p.id in b:
            return b[p.id] == n.id
        b[p.id] = n.id
        return True
    if type(p) is not type(n):
        return False
    if isinstance(p, ast.AST):
        for f in p._fields:
            if f in ('ctx', 'type_comment', 'kind'):
                continue
            pv, nv = getattr(p, f, None), getattr(n, f, None)
            if isinstance(pv, list):
                if not isinstance(nv, list) or len(pv) != len(nv):
                    return False
                for x, y in zip(pv, nv):
                    if not _m(x, y, b):
                        return False
            elif isinstance(pv, ast.AST):
                if not isinstance(nv, ast.AST) or not _m(pv, nv, b):
                    return False
            elif pv != nv:
                return False
        return True
    return p == n


def match(pattern, node, binds=None, stmt=False):
    """Bindings dict if node matches the pattern, else None."""
    p = _parse(pattern, 'stmt' if stmt else 'expr')
    b = dict(binds or {})
    if _m(p, node, b):
        return {k: (v if isinstance(v, str) else v[1]) for k, v in b.items()} \
            if False else b
    return None


def find(pattern, fi_or_nodes, binds=None, stmt=False):
    """All (node, bindings) in a function's own nodes matching the pattern."""
    nodes = own_nodes(fi_or_nodes) if hasattr(fi_or_nodes, 'node') else \
        fi_or_nodes
    out = []
    for n in nodes:
        if stmt and not isinstance(n, ast.stmt):
            continue
        if not stmt and not isinstance(n, ast.expr):
            continue
        b = match(pattern, n, binds, stmt)
        if b is not None:
            out.append((n, b))
    return out


def has(pattern, fi_or_nodes, binds=None, stmt=False):
    return bool(find(pattern, fi_or_nodes, binds, stmt))


def name_of(b, var):
    v = b.get(var)
    return v if isinstance(v, str) else None
