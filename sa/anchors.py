"""Rename-transparent anchors.

The rules name their anchors (`_merge_raw_update`, `Ranges._merge`, `_xmask`).
A commit that only *renames* a private function, method or constant would make
every rule that names it answer "cannot decide".  `spec/anchors.json` records,
for every private definition of the pinned tree, a fingerprint of its shape
(identifiers of locals and of private package names blanked).  When the model
is loaded and a recorded name is gone from its module while exactly one *new*
private definition of that module has the same fingerprint, the new name is
renamed back to the recorded one in the analysed ASTs of the whole package.
The table is used for nothing else: it never judges code, and a definition
that was renamed *and* edited is simply not found (exit 2, as before).
"""
import ast
import hashlib
import json
import os

HERE = os.path.dirname(os.path.abspath(__file__))
TABLE = os.path.join(os.path.dirname(HERE), 'spec', 'anchors.json')


def _private(name):
    return name.startswith('_') and not (name.startswith('__') and
                                         name.endswith('__'))


def definitions(tree):
    """(kind, qualname, simple name, node) of the private definitions of a
    module: functions, methods, module-level constants, class attributes."""
    out = []

    def consts(body, prefix):
        for st in body:
            if isinstance(st, ast.Assign) and len(st.targets) == 1 and \
                    isinstance(st.targets[0], ast.Name) and _private(
                    st.targets[0].id):
                out.append(('const', prefix + st.targets[0].id,
                            st.targets[0].id, st.value))

    consts(tree.body, '')
    for st in tree.body:
        if isinstance(st, (ast.FunctionDef, ast.AsyncFunctionDef)) and \
                _private(st.name):
            out.append(('func', st.name, st.name, st))
        elif isinstance(st, ast.ClassDef):
            consts(st.body, st.name + '.')
            for s2 in st.body:
                if isinstance(s2, (ast.FunctionDef, ast.AsyncFunctionDef)) \
                        and _private(s2.name):
                    out.append(('func', '%s.%s' % (st.name, s2.name),
                                s2.name, s2))
    return out


def fingerprint(node, private_names):
    """Shape of a definition: `ast.dump` with the definition's own name, its
    parameters and locals numbered by first occurrence, and every private
    package name replaced by one placeholder."""
    local = {}
    if isinstance(node, (ast.FunctionDef, ast.AsyncFunctionDef)):
        for a in ast.walk(node):
            if isinstance(a, ast.arg):
                local.setdefault(a.arg, 'v%d' % len(local))
        for n in ast.walk(node):
            if isinstance(n, ast.Name) and isinstance(n.ctx, ast.Store):
                local.setdefault(n.id, 'v%d' % len(local))

    def ident(s):
        if s in local:
            return local[s]
        if s in private_names:
            return '<private>'
        return s

    def dump(n):
        if isinstance(n, ast.AST):
            fields = []
            for k, v in ast.iter_fields(n):
                if k in ('lineno', 'col_offset', 'end_lineno',
                         'end_col_offset', 'type_comment', 'ctx'):
                    continue
                if isinstance(n, (ast.FunctionDef, ast.AsyncFunctionDef)) \
                        and k == 'name':
                    v = '<def>' if n is node else ident(v)
                elif isinstance(n, ast.Name) and k == 'id':
                    v = ident(v)
                elif isinstance(n, ast.arg) and k == 'arg':
                    v = ident(v)
                elif isinstance(n, ast.Attribute) and k == 'attr':
                    v = ident(v) if v in private_names else v
                elif isinstance(n, ast.keyword) and k == 'arg' and v:
                    v = ident(v)
                fields.append('%s=%s' % (k, dump(v)))
            return '%s(%s)' % (type(n).__name__, ','.join(fields))
        if isinstance(n, list):
            return '[%s]' % ','.join(dump(x) for x in n)
        return repr(n)

    body = node
    if isinstance(node, (ast.FunctionDef, ast.AsyncFunctionDef)) and \
            node.body and isinstance(node.body[0], ast.Expr) and isinstance(
            node.body[0].value, ast.Constant) and isinstance(
            node.body[0].value.value, str):
        # the docstring is not part of the shape
        import copy
        body = copy.copy(node)
        body.body = node.body[1:] or [ast.Pass()]
        node, body = body, body  # `<def>` marks the copy as well
    return hashlib.sha256(dump(body).encode()).hexdigest()[:20]


def table_of(modules):
    """{rel: [(kind, qualname, fingerprint)]} for parsed modules
    (rel -> canonicalised tree)."""
    private = set()
    defs = {}
    for rel, tree in modules.items():
        defs[rel] = definitions(tree)
        private |= {d[2] for d in defs[rel]}
    return {rel: [[k, q, fingerprint(n, private)] for k, q, _s, n in ds]
            for rel, ds in sorted(defs.items())}, private


def rename_back(modules):
    """modules: rel -> canonicalised ast.Module (mutated in place).  Returns
    [(rel, new name, recorded name)] for every rename undone."""
    try:
        with open(TABLE) as f:
            recorded = json.load(f)['definitions']
    except Exception:
        return []
    rec_names = {q.split('.')[-1] for ds in recorded.values()
                 for _k, q, _fp in ds}
    # the fingerprints of the recorded tree were taken with *its* private
    # names blanked; blank those and today's alike
    private = set(rec_names)
    for tree in modules.values():
        private |= {d[2] for d in definitions(tree)}
    now = {rel: [[k, q, fingerprint(n, private)]
                 for k, q, _s, n in definitions(tree)]
           for rel, tree in modules.items()}
    all_idents = set()
    for tree in modules.values():
        for n in ast.walk(tree):
            if isinstance(n, ast.Name):
                all_idents.add(n.id)
            elif isinstance(n, ast.Attribute):
                all_idents.add(n.attr)
            elif isinstance(n, (ast.FunctionDef, ast.AsyncFunctionDef,
                                ast.ClassDef)):
                all_idents.add(n.name)
            elif isinstance(n, ast.arg):
                all_idents.add(n.arg)
            elif isinstance(n, ast.alias):
                all_idents.add(n.asname or n.name)
    renames = []
    for rel, ds in recorded.items():
        cur = now.get(rel)
        if cur is None:
            continue
        cur_q = {q for _k, q, _fp in cur}
        gone = [(k, q, fp) for k, q, fp in ds if q not in cur_q]
        if not gone:
            continue
        rec_q = {q for _k, q, _fp in ds}
        fresh = [(k, q, fp) for k, q, fp in cur if q not in rec_q]
        for k, q, fp in gone:
            old = q.split('.')[-1]
            if old in all_idents:
                continue  # the recorded name is still in use for something
            same_fp_old = [x for x in ds if x[2] == fp and x[0] == k]
            cands = [x for x in fresh if x[2] == fp and x[0] == k and
                     x[1].count('.') == q.count('.')]
            if len(cands) != 1 or len(same_fp_old) != 1:
                continue
            new = cands[0][1].split('.')[-1]
            if new in rec_names or new == old:
                continue
            renames.append((rel, new, old))
    done = []
    for rel, new, old in renames:
        if any(r[1] == new for r in done):
            continue
        for tree in modules.values():
            for n in ast.walk(tree):
                if isinstance(n, ast.Name) and n.id == new:
                    n.id = old
                elif isinstance(n, ast.Attribute) and n.attr == new:
                    n.attr = old
                elif isinstance(n, (ast.FunctionDef, ast.AsyncFunctionDef)) \
                        and n.name == new:
                    n.name = old
                elif isinstance(n, ast.arg) and n.arg == new:
                    n.arg = old
                elif isinstance(n, ast.alias):
                    if n.name == new:
                        n.name = old
                    if n.asname == new:
                        n.asname = old
                elif isinstance(n, ast.keyword) and n.arg == new:
                    n.arg = old
        done.append((rel, new, old))
    return done
