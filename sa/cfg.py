"""E4 - statement-level control-flow graph, dominators, forward dataflow."""
import ast


class Node:
    __slots__ = ('id', 'kind', 'ast', 'succ', 'pred', 'label')

    def __init__(self, nid, kind, node=None, label=''):
        self.id, self.kind, self.ast = nid, kind, node
        self.succ, self.pred, self.label = [], [], label

    @property
    def lineno(self):
        return getattr(self.ast, 'lineno', None)

    def __repr__(self):
        return '<N%d %s %s>' % (self.id, self.kind, self.lineno)


class CFG:
    """Nodes: 'entry', 'exit' (normal), 'raise' (exceptional exit), 'stmt',
    'test' (if/while test; ast = the test expression, label = owner stmt kind),
    'iter' (for header; ast = the For node), 'handler' (ast = ExceptHandler),
    'with' (ast = With node), 'return', 'raisestmt'.
    Edge labels: '', 'true', 'false', 'exc', 'loop', 'done'.
    """

    def __init__(self, fi):
        self.fi = fi
        self.nodes = []
        self.entry = self._new('entry')
        self.exit = self._new('exit')
        self.raise_exit = self._new('raise')
        self._loops = []  # (continue target, break collector list)
        self._tries = []  # list of handler-entry lists (innermost last)
        outs = self._block(fi.body, [(self.entry, '')])
        for n, l in outs:
            self._edge(n, self.exit, l)
        self.by_ast = {}
        for n in self.nodes:
            if n.ast is not None:
                self.by_ast.setdefault(id(n.ast), n)

    def _new(self, kind, node=None, label=''):
        n = Node(len(self.nodes), kind, node, label)
        self.nodes.append(n)
        return n

    def _edge(self, a, b, label=''):
        a.succ.append((b, label))
        b.pred.append((a, label))

    def _connect(self, ins, node):
        for n, l in ins:
            self._edge(n, node, l)

    def _exc_targets(self):
        if self._tries:
            return self._tries[-1]
        return None

    def _may_raise(self, node):
        """Inside a try body every statement may transfer to the handlers."""
        t = self._exc_targets()
        if t is not None:
            for h in t:
                self._edge(node, h, 'exc')

    def _block(self, stmts, ins):
        for st in stmts:
            ins = self._stmt(st, ins)
        return ins

    def _stmt(self, st, ins):
        if isinstance(st, ast.If):
            t = self._new('test', st.test, 'if')
            self._connect(ins, t)
            self._may_raise(t)
            a = self._block(st.body, [(t, 'true')])
            b = self._block(st.orelse, [(t, 'false')])
            return a + b
        if isinstance(st, ast.While):
            t = self._new('test', st.test, 'while')
            self._connect(ins, t)
            self._may_raise(t)
            brk = []
            self._loops.append((t, brk))
            body_out = self._block(st.body, [(t, 'true')])
            self._loops.pop()
            for n, l in body_out:
                self._edge(n, t, l or 'loop')
            const_true = isinstance(st.test, ast.Constant) and bool(st.test.value)
            outs = [] if const_true else self._block(st.orelse, [(t, 'false')])
            return outs + brk
        if isinstance(st, (ast.For, ast.AsyncFor)):
            t = self._new('iter', st)
            self._connect(ins, t)
            self._may_raise(t)
            brk = []
            self._loops.append((t, brk))
            body_out = self._block(st.body, [(t, 'true')])
            self._loops.pop()
            for n, l in body_out:
                self._edge(n, t, l or 'loop')
            outs = self._block(st.orelse, [(t, 'done')])
            return outs + brk
        if isinstance(st, ast.Try):
            handlers = [self._new('handler', h) for h in st.handlers]
            outer = self._exc_targets()
            # an exception not matched by these handlers propagates outward
            self._tries.append(handlers)
            body_out = self._block(st.body, ins)
            self._tries.pop()
            else_out = self._block(st.orelse, body_out)
            outs = list(else_out)
            for h, hn in zip(st.handlers, handlers):
                outs += self._block(h.body, [(hn, '')])
            if not _has_catch_all(st):
                # unmatched exception: to outer handlers or the raise exit
                esc = self._new('stmt', None, 'try-unmatched')
                for hn in handlers[:1]:
                    # every source that can reach a handler can also bypass it
                    for (src, l) in list(hn.pred):
                        if l == 'exc':
                            self._edge(src, esc, 'exc')
                if outer is not None:
                    for o in outer:
                        self._edge(esc, o, 'exc')
                else:
                    self._edge(esc, self.raise_exit, 'exc')
            if st.finalbody:
                outs = self._block(st.finalbody, outs)
            return outs
        if isinstance(st, (ast.With, ast.AsyncWith)):
            w = self._new('with', st)
            self._connect(ins, w)
            self._may_raise(w)
            return self._block(st.body, [(w, '')])
        if isinstance(st, ast.Return):
            n = self._new('return', st)
            self._connect(ins, n)
            self._may_raise(n)
            self._edge(n, self.exit, 'return')
            return []
        if isinstance(st, ast.Raise):
            n = self._new('raisestmt', st)
            self._connect(ins, n)
            t = self._exc_targets()
            if t is not None:
                for h in t:
                    self._edge(n, h, 'exc')
                # may also be unmatched
                self._edge(n, self.raise_exit, 'exc?')
            else:
                self._edge(n, self.raise_exit, 'exc')
            return []
        if isinstance(st, ast.Break):
            n = self._new('stmt', st)
            self._connect(ins, n)
            if self._loops:
                self._loops[-1][1].append((n, 'break'))
            return []
        if isinstance(st, ast.Continue):
            n = self._new('stmt', st)
            self._connect(ins, n)
            if self._loops:
                self._edge(n, self._loops[-1][0], 'continue')
            return []
        if isinstance(st, ast.Match):
            t = self._new('test', st.subject, 'match')
            self._connect(ins, t)
            outs = [(t, 'nomatch')]
            for c in st.cases:
                outs += self._block(c.body, [(t, 'case')])
            return outs
        n = self._new('stmt', st)
        self._connect(ins, n)
        self._may_raise(n)
        return [(n, '')]

    # -- analyses -------------------------------------------------------------
    def dominators(self):
        """node id -> set of node ids that dominate it (reachable nodes only)."""
        reach = self.reachable_from(self.entry)
        ids = [n.id for n in self.nodes if n.id in reach]
        full = set(ids)
        dom = {i: set(full) for i in ids}
        dom[self.entry.id] = {self.entry.id}
        changed = True
        order = self.rpo()
        while changed:
            changed = False
            for n in order:
                if n is self.entry:
                    continue
                preds = [p for p, _ in n.pred if p.id in reach]
                if not preds:
                    continue
                new = set.intersection(*(dom[p.id] for p in preds)) | {n.id}
                if new != dom[n.id]:
                    dom[n.id] = new
                    changed = True
        return dom

    def reachable_from(self, start):
        seen, stack = {start.id}, [start]
        while stack:
            n = stack.pop()
            for s, _ in n.succ:
                if s.id not in seen:
                    seen.add(s.id)
                    stack.append(s)
        return seen

    def rpo(self):
        seen, post = set(), []

        def dfs(n):
            stack = [(n, iter(n.succ))]
            seen.add(n.id)
            while stack:
                node, it = stack[-1]
                for s, _ in it:
                    if s.id not in seen:
                        seen.add(s.id)
                        stack.append((s, iter(s.succ)))
                        break
                else:
                    post.append(node)
                    stack.pop()

        dfs(self.entry)
        return list(reversed(post))

    def dominates(self, a, b, dom=None):
        dom = dom or self.dominators()
        return b.id in dom and a.id in dom[b.id]

    def node_of(self, ast_node):
        """CFG node whose statement contains the given ast node."""
        n = self.by_ast.get(id(ast_node))
        if n is not None:
            return n
        for cn in self.nodes:
            if cn.ast is None:
                continue
            root = cn.ast
            if cn.kind == 'iter':
                roots = [root.iter, root.target]
            elif cn.kind == 'with':
                roots = [i for it in root.items for i in (
                    it.context_expr, it.optional_vars) if i is not None]
            elif cn.kind == 'handler':
                roots = [root.type] if root.type is not None else []
            else:
                roots = [root]
            for r in roots:
                for sub in ast.walk(r):
                    if sub is ast_node:
                        return cn
        return None

    def forward(self, init, transfer, join, bottom=None, max_iter=50):
        """Generic forward dataflow.

        transfer(node, state) -> state or dict label->state.
        Returns dict node id -> IN state.
        """
        IN = {self.entry.id: init}
        work = [self.entry]
        count = {}
        while work:
            n = work.pop(0)
            count[n.id] = count.get(n.id, 0) + 1
            if count[n.id] > max_iter:
                continue
            out = transfer(n, IN[n.id])
            for s, label in n.succ:
                o = out.get(label, out.get(None)) if isinstance(out, ByLabel) \
                    else out
                if o is None:
                    continue
                if s.id not in IN:
                    IN[s.id] = o
                    work.append(s)
                else:
                    new = join(IN[s.id], o)
                    if new != IN[s.id]:
                        IN[s.id] = new
                        if s not in work:
                            work.append(s)
        return IN


class ByLabel(dict):
    """Transfer result that differs per outgoing edge label."""


def _has_catch_all(st):
    for h in st.handlers:
        if h.type is None:
            return True
        names = []
        if isinstance(h.type, ast.Tuple):
            names = [getattr(e, 'id', getattr(e, 'attr', '')) for e in h.type.elts]
        else:
            names = [getattr(h.type, 'id', getattr(h.type, 'attr', ''))]
        if 'Exception' in names or 'BaseException' in names:
            return True
    return False


def stmt_exprs(node):
    """The expressions evaluated *at* a CFG node (not nested statement bodies)."""
    a = node.ast
    if a is None:
        return []
    if node.kind in ('test',):
        return [a]
    if node.kind == 'iter':
        return [a.iter]
    if node.kind == 'with':
        return [it.context_expr for it in a.items]
    if node.kind == 'handler':
        return [a.type] if a.type is not None else []
    return [a]
