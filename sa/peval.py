"""E2 - partial evaluator (constant propagation over module-level code).

Abstract values:
  Const(v)            python constant (str/int/float/bool/None/tuple of constants)
  FuncV(fi)           a function/lambda of the package
  ClassV(ci)          a class of the package
  Ext(dotted)         something outside the package, by dotted name
  TokenV(cls, text)   an instance of sh.Token / XlError(-subclass)
  CallV(fn, args, kw) unevaluated application
  DictV(items, factory, kind)  ordered dict model; items: list[(key AV, value AV)]
  SeqV(kind, elts)
  Unknown(why)
"""
import ast
import itertools

from .model import AnalysisError, FuncInfo, ClassInfo, norm_src


class AV:
    site = None  # (Module, lineno)


class Const(AV):
    def __init__(self, v):
        self.v = v

    def __repr__(self):
        return 'Const(%r)' % (self.v,)


class FuncV(AV):
    def __init__(self, fi):
        self.fi = fi

    def __repr__(self):
        return 'FuncV(%s)' % self.fi.fq


class ClassV(AV):
    def __init__(self, ci):
        self.ci = ci

    def __repr__(self):
        return 'ClassV(%s)' % self.ci.fq


class Ext(AV):
    def __init__(self, name):
        self.name = name

    def __repr__(self):
        return 'Ext(%s)' % self.name


class TokenV(AV):
    def __init__(self, cls, text, site=None):
        self.cls, self.text, self.site = cls, text, site

    def __repr__(self):
        return 'TokenV(%s,%r)' % (
            self.cls.name if isinstance(self.cls, ClassInfo) else self.cls,
            self.text)


class CallV(AV):
    def __init__(self, fn, args=(), kw=None, node=None, module=None):
        self.fn, self.args, self.kw = fn, list(args), dict(kw or {})
        self.node, self.module = node, module

    def __repr__(self):
        return 'CallV(%r, %r, %r)' % (self.fn, self.args, self.kw)


class DictV(AV):
    def __init__(self, items=None, factory=None, kind='dict'):
        self.items = list(items or [])
        self.factory, self.kind = factory, kind

    def keys(self):
        return [k.v for k, _ in self.items if isinstance(k, Const)]

    def get(self, key, default=None):
        r = default
        for k, v in self.items:
            if isinstance(k, Const) and k.v == key:
                r = v
        return r

    def getk(self, keyav):
        for k, v in reversed(self.items):
            if _same_key(k, keyav):
                return v
        return None

    def set(self, k, v):
        for i, (k0, _) in enumerate(self.items):
            if _same_key(k0, k):
                self.items[i] = (k0, v)
                return
        self.items.append((k, v))

    def copy(self):
        return DictV(list(self.items), self.factory, self.kind)

    def __repr__(self):
        return 'DictV(%r)' % (self.items,)


class SeqV(AV):
    def __init__(self, kind, elts):
        self.kind, self.elts = kind, list(elts)

    def __repr__(self):
        return 'SeqV(%s,%r)' % (self.kind, self.elts)


class Unknown(AV):
    def __init__(self, why='', node=None):
        self.why, self.node = why, node

    def __repr__(self):
        return 'Unknown(%s)' % self.why


def _same_key(a, b):
    if isinstance(a, Const) and isinstance(b, Const):
        return a.v == b.v and type(a.v) is type(b.v)
    if isinstance(a, TokenV) and isinstance(b, TokenV):
        return a is b or (a.text == b.text and a.cls is b.cls)
    return a is b


def is_const(av, typ=None):
    return isinstance(av, Const) and (typ is None or isinstance(av.v, typ))


TOKEN_BASES = ('schedula.Token',)


class _Return(Exception):
    def __init__(self, value):
        self.value = value


class _InlineFail(Exception):
    pass


_INLINE_STMTS = (ast.Assign, ast.AugAssign, ast.AnnAssign, ast.Expr, ast.For,
                 ast.If, ast.Return, ast.Pass)


def _inlinable(fi):
    """A private module-level helper written in the foldable subset (plain
    assignments, loops, constant-decidable ifs, returns): the kind of function
    that builds a table at import time."""
    n = fi.node
    if not isinstance(n, ast.FunctionDef) or fi.cls is not None or \
            fi.parent is not None or n.decorator_list or \
            not fi.name.startswith('_') or fi.name.startswith('__'):
        return False
    for st in ast.walk(n):
        if isinstance(st, ast.stmt) and st is not n and not isinstance(
                st, _INLINE_STMTS):
            return False
        if isinstance(st, (ast.Yield, ast.YieldFrom, ast.Await, ast.Global,
                           ast.Nonlocal)):
            return False
        if isinstance(st, ast.For) and st.orelse:
            return False
    return True


class Evaluator:
    """Evaluates module-level code of the package lazily, one module at a time."""

    def __init__(self, project):
        self.p = project
        self.envs = {}  # module name -> env dict
        self.in_progress = set()
        self.unknowns = []  # (module, lineno, why)

    # -- helpers ------------------------------------------------------------
    def is_token_class(self, ci):
        return any(b in TOKEN_BASES for b in self.p.ext_bases(ci))

    def module_env(self, module):
        if module.name in self.envs:
            return self.envs[module.name]
        env = self.envs[module.name] = {}
        self.in_progress.add(module.name)
        try:
            self.exec_block(module, module.tree.body, env)
        finally:
            self.in_progress.discard(module.name)
        return env

    def lookup(self, module, name, env):
        if name in env:
            return env[name]
        if name in module.functions:
            return FuncV(module.functions[name])
        if name in module.classes:
            return ClassV(module.classes[name])
        if name in module.imports:
            return self.from_import(module.imports[name])
        if name in ('True', 'False', 'None'):
            return Const({'True': True, 'False': False, 'None': None}[name])
        return Ext('builtins.%s' % name)

    def from_import(self, imp):
        if imp[0] == 'mod':
            m = self.p.get_module(imp[1])
            if m is None:
                return Ext(imp[1])
            return ModuleV(m)
        _, mod, attr = imp
        m = self.p.get_module(mod)
        if m is None:
            return Ext('%s.%s' % (mod, attr))
        sub = self.p.get_module('%s.%s' % (mod, attr))
        if attr in m.functions and attr not in m.assigns:
            return FuncV(m.functions[attr])
        if attr in m.classes:
            return ClassV(m.classes[attr])
        if m.name in self.in_progress and m.name in self.envs:
            env = self.envs[m.name]  # partially evaluated (import cycle)
        else:
            env = self.module_env(m)
        if attr in env:
            return env[attr]
        if attr in m.functions:
            return FuncV(m.functions[attr])
        if attr in m.imports:
            return self.from_import(m.imports[attr])
        if sub is not None:
            return ModuleV(sub)
        return Unknown('import %s.%s' % (mod, attr))

    # -- statements ---------------------------------------------------------
    def exec_block(self, module, body, env):
        for st in body:
            self.exec_stmt(module, st, env)

    def exec_stmt(self, module, st, env):
        if isinstance(st, (ast.Import, ast.ImportFrom)):
            return
        if isinstance(st, (ast.FunctionDef, ast.AsyncFunctionDef)):
            fi = self.p.func_of_node.get(id(st))
            if fi is not None:
                env[st.name] = self.decorate(module, fi, env)
            return
        if isinstance(st, ast.ClassDef):
            ci = module.classes.get(st.name)
            if ci is not None:
                env[st.name] = ClassV(ci)
            return
        if isinstance(st, ast.Assign):
            val = self.eval(module, st.value, env)
            if val.site is None:
                try:
                    val.site = (module, st.lineno)
                except Exception:
                    pass
            for t in st.targets:
                self.assign(module, t, val, env, st)
            return
        if isinstance(st, ast.AnnAssign):
            if st.value is not None:
                self.assign(module, st.target,
                            self.eval(module, st.value, env), env, st)
            return
        if isinstance(st, ast.AugAssign):
            cur = self.eval(module, _as_load(st.target), env)
            val = self.eval(module, st.value, env)
            res = self.binop(cur, st.op, val)
            self.assign(module, st.target, res, env, st)
            return
        if isinstance(st, ast.Return):
            raise _Return(self.eval(module, st.value, env)
                          if st.value is not None else Const(None))
        if isinstance(st, ast.Expr):
            v = st.value
            if isinstance(v, ast.Call) and isinstance(v.func, ast.Attribute):
                self.method_stmt(module, v, env)
            elif isinstance(v, ast.Call) and isinstance(v.func, ast.Name):
                # `_register(table)`: a table-building helper called for its
                # effect on a module-level mapping
                fn = self._eval(module, v.func, env)
                if isinstance(fn, FuncV) and _inlinable(fn.fi):
                    self.call(module, v, env)
            return
        if isinstance(st, ast.For):
            it = self.eval(module, st.iter, env)
            elts = self.iterate(it)
            if elts is None:
                # cannot fold: mark every name assigned in the body Unknown
                for n in ast.walk(st):
                    if isinstance(n, ast.Name) and isinstance(n.ctx, ast.Store):
                        env[n.id] = Unknown('assigned in unfoldable loop', st)
                    if isinstance(n, ast.Subscript) and isinstance(
                            n.ctx, ast.Store) and isinstance(n.value, ast.Name):
                        d = env.get(n.value.id)
                        if isinstance(d, DictV):
                            d.items.append((Unknown('loop key'), Unknown(
                                'unfoldable loop at %s:%d' % (
                                    module.rel, st.lineno))))
                return
            for e in elts:
                self.assign(module, st.target, e, env, st)
                self.exec_block(module, st.body, env)
            return
        if isinstance(st, ast.If):
            t = self.eval(module, st.test, env)
            if is_const(t):
                self.exec_block(module, st.body if t.v else st.orelse, env)
            elif getattr(self, '_inlining', 0):
                raise _InlineFail()
            else:
                # undecidable: bindings become Unknown
                for n in ast.walk(st):
                    if isinstance(n, ast.Name) and isinstance(n.ctx, ast.Store):
                        env[n.id] = Unknown('conditional binding', st)
            return
        if isinstance(st, (ast.Try, ast.With)):
            self.exec_block(module, st.body, env)
            return
        # everything else (del, assert, pass...) has no effect on tables

    def decorate(self, module, fi, env):
        v = FuncV(fi)
        for d in reversed(fi.decorators()):
            dv = self.eval(module, d, env)
            v = CallV(dv, [v], {}, node=d, module=module)
        return v

    def assign(self, module, target, val, env, st):
        if isinstance(target, ast.Name):
            env[target.id] = val
        elif isinstance(target, (ast.Tuple, ast.List)):
            elts = self.iterate(val)
            if elts is not None and len(elts) == len(target.elts):
                for t, e in zip(target.elts, elts):
                    self.assign(module, t, e, env, st)
            else:
                for t in target.elts:
                    self.assign(module, t, Unknown('unpack', st), env, st)
        elif isinstance(target, ast.Subscript):
            base = self.eval(module, target.value, env)
            key = self.eval(module, target.slice, env)
            if isinstance(base, DictV):
                if val.site is None:
                    val.site = (module, st.lineno)
                base.set(key, val)
                base.sites = getattr(base, 'sites', {})
                if isinstance(key, Const):
                    base.sites[key.v] = (module, st.lineno)
        elif isinstance(target, ast.Attribute):
            pass

    def method_stmt(self, module, call, env):
        """Statement-level method calls with table effects: D.update(...)."""
        recv = self.eval(module, call.func.value, env)
        m = call.func.attr
        if isinstance(recv, DictV) and m == 'update':
            for a in call.args:
                src = self.eval(module, a, env)
                self.dict_update(recv, src, module, call)
            for k in call.keywords:
                if k.arg is None:
                    self.dict_update(recv, self.eval(module, k.value, env),
                                     module, call)
                else:
                    recv.set(Const(k.arg), self.eval(module, k.value, env))
        elif isinstance(recv, SeqV) and m == 'append' and call.args:
            recv.elts.append(self.eval(module, call.args[0], env))
        elif isinstance(recv, SeqV) and m == 'extend' and call.args:
            e = self.iterate(self.eval(module, call.args[0], env))
            if e is None:
                recv.elts.append(Unknown('extend'))
            else:
                recv.elts.extend(e)

    def dict_update(self, d, src, module, node):
        if isinstance(src, DictV):
            for k, v in src.items:
                if v.site is None and module is not None:
                    v.site = (module, node.lineno)
                d.set(k, v)
                if isinstance(k, Const) and module is not None:
                    d.sites = getattr(d, 'sites', {})
                    d.sites[k.v] = getattr(src, 'sites', {}).get(
                        k.v, (module, node.lineno))
        else:
            # an iterable of (key, value) pairs: a list/generator of 2-tuples,
            # zip(keys, values), ...
            pairs = self.iterate(src)
            kvs = [self.iterate(p_) for p_ in pairs] if pairs is not None \
                else None
            if kvs is not None and all(kv is not None and len(kv) == 2
                                       for kv in kvs):
                for k, v in kvs:
                    if v.site is None and module is not None:
                        v.site = (module, node.lineno)
                    d.set(k, v)
                    if isinstance(k, Const) and module is not None:
                        d.sites = getattr(d, 'sites', {})
                        d.sites[k.v] = (module, node.lineno)
                return
            d.items.append((Unknown('update key'),
                            Unknown('update from %r at %s:%d' % (
                                src, getattr(module, 'rel', '?'), node.lineno))))

    # -- expressions --------------------------------------------------------
    def eval(self, module, node, env):
        try:
            return self._eval(module, node, env)
        except RecursionError:  # pragma: no cover
            return Unknown('recursion', node)

    def _eval(self, module, node, env):
        if isinstance(node, ast.Constant):
            return Const(node.value)
        if isinstance(node, ast.Name):
            return self.lookup(module, node.id, env)
        if isinstance(node, ast.Lambda):
            fi = self.p.func_of_node.get(id(node))
            if fi is None:
                return Unknown('unindexed lambda', node)
            return FuncV(fi)
        if isinstance(node, ast.Attribute):
            base = self._eval(module, node.value, env)
            return self.getattr(base, node.attr, node)
        if isinstance(node, ast.Dict):
            d = DictV()
            for k, v in zip(node.keys, node.values):
                if k is None:
                    src = self._eval(module, v, env)
                    if isinstance(src, DictV):
                        for kk, vv in src.items:
                            d.set(kk, vv)
                    else:
                        d.items.append((Unknown('**'), Unknown('** of %r' % src)))
                else:
                    d.set(self._eval(module, k, env), self._eval(module, v, env))
            return d
        if isinstance(node, (ast.Tuple, ast.List, ast.Set)):
            kind = {ast.Tuple: 'tuple', ast.List: 'list', ast.Set: 'set'}[
                type(node)]
            elts = []
            for e in node.elts:
                if isinstance(e, ast.Starred):
                    sub = self.iterate(self._eval(module, e.value, env))
                    if sub is None:
                        elts.append(Unknown('starred'))
                    else:
                        elts.extend(sub)
                else:
                    elts.append(self._eval(module, e, env))
            if kind == 'tuple' and all(is_const(e) for e in elts):
                return Const(tuple(e.v for e in elts))
            return SeqV(kind, elts)
        if isinstance(node, ast.Subscript):
            base = self._eval(module, node.value, env)
            if isinstance(node.slice, ast.Slice):
                lo = self._eval(module, node.slice.lower, env) if node.slice.lower else Const(None)
                hi = self._eval(module, node.slice.upper, env) if node.slice.upper else Const(None)
                stp = self._eval(module, node.slice.step, env) if node.slice.step else Const(None)
                if all(is_const(x) for x in (lo, hi, stp)):
                    sl = slice(lo.v, hi.v, stp.v)
                    if is_const(base, (str, tuple)):
                        return Const(base.v[sl])
                    if isinstance(base, SeqV):
                        return SeqV(base.kind, base.elts[sl])
                return Unknown('slice', node)
            key = self._eval(module, node.slice, env)
            return self.getitem(base, key, node)
        if isinstance(node, ast.Call):
            return self.call(module, node, env)
        if isinstance(node, ast.BinOp):
            return self.binop(self._eval(module, node.left, env), node.op,
                              self._eval(module, node.right, env), node)
        if isinstance(node, ast.UnaryOp):
            v = self._eval(module, node.operand, env)
            if is_const(v):
                try:
                    if isinstance(node.op, ast.USub):
                        return Const(-v.v)
                    if isinstance(node.op, ast.UAdd):
                        return Const(+v.v)
                    if isinstance(node.op, ast.Not):
                        return Const(not v.v)
                    if isinstance(node.op, ast.Invert):
                        return Const(~v.v)
                except Exception:
                    pass
            return Unknown('unary', node)
        if isinstance(node, ast.BoolOp):
            vals = [self._eval(module, v, env) for v in node.values]
            if all(is_const(v) for v in vals):
                r = vals[0].v
                for v in vals[1:]:
                    r = (r and v.v) if isinstance(node.op, ast.And) else (r or v.v)
                return Const(r)
            return Unknown('boolop', node)
        if isinstance(node, ast.Compare):
            l = self._eval(module, node.left, env)
            if len(node.ops) == 1:
                r = self._eval(module, node.comparators[0], env)
                if is_const(l) and is_const(r):
                    try:
                        return Const(_cmp(node.ops[0], l.v, r.v))
                    except Exception:
                        pass
            return Unknown('compare', node)
        if isinstance(node, ast.DictComp):
            return self.dictcomp(module, node, env)
        if isinstance(node, (ast.ListComp, ast.GeneratorExp, ast.SetComp)):
            return self.listcomp(module, node, env)
        if isinstance(node, ast.JoinedStr):
            parts = []
            for v in node.values:
                if isinstance(v, ast.Constant):
                    parts.append(str(v.value))
                else:
                    return Unknown('fstring', node)
            return Const(''.join(parts))
        if isinstance(node, ast.IfExp):
            t = self._eval(module, node.test, env)
            if is_const(t):
                return self._eval(module, node.body if t.v else node.orelse, env)
            return Unknown('ifexp', node)
        if isinstance(node, ast.Starred):
            return Unknown('starred', node)
        return Unknown(type(node).__name__, node)

    def getattr(self, base, attr, node=None):
        if isinstance(base, ModuleV):
            m = base.m
            env = self.envs[m.name] if m.name in self.in_progress else \
                self.module_env(m)
            if attr in env:
                return env[attr]
            if attr in m.functions:
                return FuncV(m.functions[attr])
            if attr in m.classes:
                return ClassV(m.classes[attr])
            if attr in m.imports:
                return self.from_import(m.imports[attr])
            sub = self.p.get_module('%s.%s' % (m.name, attr))
            if sub is not None:
                return ModuleV(sub)
            return Unknown('module attr %s.%s' % (m.name, attr), node)
        if isinstance(base, Ext):
            return Ext('%s.%s' % (base.name, attr))
        if isinstance(base, ClassV):
            f = self.p.find_method(base.ci, attr)
            if f is not None:
                return FuncV(f)
            a = self.p.find_class_attr(base.ci, attr)
            if a is not None:
                return self.class_attr(a[0], attr)
            return Unknown('class attr %s.%s' % (base.ci.name, attr), node)
        if is_const(base, str):
            return BoundV(base, attr)
        if isinstance(base, (DictV, SeqV)):
            return BoundV(base, attr)
        return Unknown('attr .%s of %r' % (attr, base), node)

    def class_attr(self, ci, attr):
        cache = self.__dict__.setdefault('_class_attr_cache', {})
        key = (ci.fq, attr)
        if key not in cache:
            cache[key] = Unknown('recursive class attr')
            env = dict(self.module_env(ci.module)) if \
                ci.module.name not in self.in_progress else \
                dict(self.envs[ci.module.name])
            # class body names
            cenv = ClassEnv(env)
            for st in ci.node.body:
                if isinstance(st, ast.Assign):
                    v = self.eval(ci.module, st.value, cenv)
                    for t in st.targets:
                        self.assign(ci.module, t, v, cenv, st)
                elif isinstance(st, ast.Expr) and isinstance(
                        st.value, ast.Call) and isinstance(
                        st.value.func, ast.Attribute):
                    self.method_stmt(ci.module, st.value, cenv)
                elif isinstance(st, (ast.For, ast.If, ast.AugAssign,
                                     ast.AnnAssign)):
                    # tables filled by a loop / under a constant condition
                    self.exec_stmt(ci.module, st, cenv)
            for k, v in cenv.items():
                cache[(ci.fq, k)] = v
            if key not in cache or isinstance(cache[key], Unknown):
                cache[key] = cenv.get(attr, Unknown('class attr %s' % attr))
        return cache[key]

    def getitem(self, base, key, node=None):
        if isinstance(base, DictV):
            v = base.getk(key)
            if v is not None:
                return v
            if base.factory is not None:
                return CallV(base.factory, [], {})
            return Unknown('missing key %r' % (key,), node)
        if isinstance(base, SeqV) and is_const(key, int):
            try:
                return base.elts[key.v]
            except IndexError:
                return Unknown('index', node)
        if is_const(base, (str, tuple)) and is_const(key, int):
            try:
                return Const(base.v[key.v])
            except Exception:
                return Unknown('index', node)
        return Unknown('subscript of %r' % (base,), node)

    def call(self, module, node, env):
        fn = self._eval(module, node.func, env)
        args = []
        for a in node.args:
            if isinstance(a, ast.Starred):
                sub = self.iterate(self._eval(module, a.value, env))
                if sub is None:
                    args.append(Unknown('*args', a))
                else:
                    args.extend(sub)
            else:
                args.append(self._eval(module, a, env))
        kw = {}
        for k in node.keywords:
            v = self._eval(module, k.value, env)
            if k.arg is None:
                if isinstance(v, DictV) and all(
                        is_const(kk, str) for kk, _ in v.items):
                    for kk, vv in v.items:
                        kw[kk.v] = vv
                else:
                    kw['**'] = Unknown('**kw of %r' % (v,), k.value)
            else:
                kw[k.arg] = v
        return self.apply(fn, args, kw, node, module)

    def apply(self, fn, args, kw, node=None, module=None):
        # functools.partial application -> flatten
        if isinstance(fn, CallV) and isinstance(fn.fn, Ext) and \
                fn.fn.name == 'functools.partial' and fn.args:
            kw2 = dict(fn.kw)
            kw2.update(kw)
            return self.apply(fn.args[0], fn.args[1:] + list(args), kw2, node,
                              module)
        if isinstance(fn, Ext):
            r = self.ext_call(fn.name, args, kw, node)
            if r is not None:
                return r
        if isinstance(fn, BoundV):
            r = self.bound_call(fn, args, kw)
            if r is not None:
                return r
        if isinstance(fn, FuncV) and _inlinable(fn.fi) and '**' not in kw:
            r = self.inline(fn.fi, args, kw)
            if r is not None:
                return r
        if isinstance(fn, ClassV):
            if self.is_token_class(fn.ci) and len(args) == 1 and is_const(
                    args[0], str):
                return TokenV(fn.ci, args[0].v,
                              site=(module, node.lineno) if node is not None
                              else None)
        return CallV(fn, args, kw, node=node, module=module)

    def inline(self, fi, args, kw):
        """Evaluate a call of a table-building helper by executing its body
        on the abstract values; None when it leaves the foldable subset."""
        if getattr(self, '_inlining', 0) >= 4:
            return None
        a = fi.node.args
        names = [x.arg for x in a.posonlyargs + a.args]
        module = fi.module
        menv = self.envs[module.name] if module.name in self.in_progress \
            and module.name in self.envs else self.module_env(module)
        env = ChainEnv(menv)
        if len(args) > len(names) and a.vararg is None:
            return None
        for n_, v in zip(names, args):
            env[n_] = v
        if a.vararg is not None:
            env[a.vararg.arg] = SeqV('tuple', list(args[len(names):]))
        defaults = dict(zip(names[len(names) - len(a.defaults):], a.defaults))
        for k, d in zip(a.kwonlyargs, a.kw_defaults):
            if d is not None:
                defaults[k.arg] = d
        allowed = set(names) | {k.arg for k in a.kwonlyargs}
        extra = DictV()
        for k, v in kw.items():
            if k in allowed and not (k in names and
                                     names.index(k) < len(args)):
                env[k] = v
            elif a.kwarg is not None and k not in allowed:
                extra.set(Const(k), v)      # collected by **kwargs
            else:
                return None
        if a.kwarg is not None:
            env[a.kwarg.arg] = extra
        for n_ in allowed:
            if not dict.__contains__(env, n_):
                if n_ not in defaults:
                    return None
                env[n_] = self.eval(module, defaults[n_], menv)
        self._inlining = getattr(self, '_inlining', 0) + 1
        try:
            self.exec_block(module, fi.node.body, env)
            res = Const(None)
        except _Return as r:
            res = r.value
        except _InlineFail:
            return None
        finally:
            self._inlining -= 1
        return None if isinstance(res, Unknown) else res

    def ext_call(self, name, args, kw, node):
        if name in ('collections.OrderedDict', 'builtins.dict'):
            d = DictV(kind='OrderedDict' if 'Ordered' in name else 'dict')
            if args:
                src = args[0]
                if isinstance(src, DictV):
                    for k, v in src.items:
                        d.set(k, v)
                else:
                    elts = self.iterate(src)
                    if elts is None:
                        return None
                    for e in elts:
                        kv = self.iterate(e)
                        if kv is None or len(kv) != 2:
                            return None
                        d.set(kv[0], kv[1])
            for k, v in kw.items():
                d.set(Const(k), v)
            return d
        if name in ('builtins.dict.fromkeys',
                    'collections.OrderedDict.fromkeys') and args:
            elts = self.iterate(args[0])
            if elts is None:
                return None
            d = DictV(kind='OrderedDict' if 'Ordered' in name else 'dict')
            val = args[1] if len(args) > 1 else Const(None)
            for e in elts:
                d.set(e, val)
            return d
        if name == 'collections.defaultdict':
            d = DictV(kind='defaultdict',
                      factory=args[0] if args else None)
            # defaultdict(factory, initial mapping / pairs, **items)
            for a in args[1:]:
                self.dict_update(d, a, None, node)
            for k, v in kw.items():
                d.set(Const(k), v)
            return d
        if name == 'schedula.combine_dicts':
            d = DictV()
            srcs = list(args)
            base = kw.get('base')
            if base is not None:
                if not isinstance(base, DictV):
                    return None
                d = base.copy()
            for s in srcs:
                if not isinstance(s, DictV):
                    return None
                for k, v in s.items:
                    d.set(k, v)
            return d
        if name == 'schedula.Token' and len(args) == 1 and is_const(args[0], str):
            return TokenV('schedula.Token', args[0].v)
        if name == 'builtins.str' and len(args) == 1:
            if isinstance(args[0], TokenV):
                return Const(args[0].text)
            if is_const(args[0]):
                return Const(str(args[0].v))
        if name in ('builtins.tuple', 'builtins.list', 'builtins.sorted',
                    'builtins.set', 'builtins.frozenset') and len(args) == 1:
            e = self.iterate(args[0])
            if e is not None:
                if name.endswith('sorted'):
                    if all(is_const(x) for x in e):
                        try:
                            e = sorted(e, key=lambda x: x.v)
                        except TypeError:
                            return None
                    else:
                        return None
                return SeqV(name.split('.')[1].replace('sorted', 'list'), e)
        if name == 'builtins.map' and len(args) >= 2:
            seqs = [self.iterate(a) for a in args[1:]]
            if all(s is not None for s in seqs):
                return SeqV('list', [self.apply(args[0], list(t), {})
                                     for t in zip(*seqs)])
        if name == 'builtins.zip':
            seqs = [self.iterate(a) for a in args]
            if all(s is not None for s in seqs):
                return SeqV('list', [SeqV('tuple', list(t)) for t in zip(*seqs)])
        if name == 'builtins.range' and all(is_const(a, int) for a in args):
            return SeqV('list', [Const(i) for i in range(*[a.v for a in args])])
        if name == 'builtins.len' and len(args) == 1:
            e = self.iterate(args[0])
            if e is not None:
                return Const(len(e))
        if name in ('itertools.permutations', 'itertools.combinations',
                    'itertools.product'):
            seqs = [self.iterate(a) for a in args
                    if not is_const(a, int) or name.endswith('product')]
            ints = [a.v for a in args if is_const(a, int)]
            if all(s is not None for s in seqs) and seqs:
                f = getattr(itertools, name.split('.')[1])
                try:
                    if name.endswith('product'):
                        res = f(*seqs)
                    else:
                        res = f(seqs[0], *ints)
                    return SeqV('list', [SeqV('tuple', list(t)) for t in res])
                except Exception:
                    return None
        if name in ('builtins.int', 'builtins.float') and len(args) == 1 and \
                is_const(args[0], (int, float, str)):
            try:
                return Const({'int': int, 'float': float}[name.split('.')[1]](
                    args[0].v))
            except Exception:
                return None
        return None

    def bound_call(self, b, args, kw):
        base, m = b.base, b.attr
        if is_const(base, str):
            if m == 'join' and len(args) == 1:
                e = self.iterate(args[0])
                if e is not None and all(is_const(x, str) for x in e):
                    return Const(base.v.join(x.v for x in e))
            if m == 'format' and all(is_const(a) for a in args) and all(
                    is_const(v) for v in kw.values()):
                try:
                    return Const(base.v.format(
                        *[a.v for a in args],
                        **{k: v.v for k, v in kw.items()}))
                except Exception:
                    return None
            if m in ('upper', 'lower', 'strip', 'capitalize') and not args:
                return Const(getattr(base.v, m)())
            if m == 'split' and all(is_const(a) for a in args):
                return SeqV('list', [Const(x) for x in base.v.split(
                    *[a.v for a in args])])
            if m == 'replace' and len(args) == 2 and all(
                    is_const(a, str) for a in args):
                return Const(base.v.replace(args[0].v, args[1].v))
        if isinstance(base, DictV):
            if m == 'items' and not args:
                return SeqV('list', [SeqV('tuple', [k, v])
                                     for k, v in base.items])
            if m == 'keys' and not args:
                return SeqV('list', [k for k, _ in base.items])
            if m == 'values' and not args:
                return SeqV('list', [v for _, v in base.items])
            if m == 'copy' and not args:
                return base.copy()
            if m == 'get' and args:
                v = base.getk(args[0])
                if v is not None:
                    return v
                return args[1] if len(args) > 1 else Const(None)
        if isinstance(base, SeqV):
            if m == 'copy' and not args:
                return SeqV(base.kind, base.elts)
        return None

    def binop(self, l, op, r, node=None):
        if is_const(l) and is_const(r):
            try:
                return Const(_binop(op, l.v, r.v))
            except Exception:
                return Unknown('binop', node)
        if isinstance(op, ast.Add) and isinstance(l, SeqV) and isinstance(r, SeqV):
            return SeqV(l.kind, l.elts + r.elts)
        if isinstance(op, ast.Mod) and is_const(l, str):
            e = self.iterate(r) if isinstance(r, SeqV) else None
            if e is not None and all(is_const(x) for x in e):
                try:
                    return Const(l.v % tuple(x.v for x in e))
                except Exception:
                    pass
        return Unknown('binop', node)

    def iterate(self, av):
        if isinstance(av, SeqV):
            return list(av.elts)
        if is_const(av, tuple):
            return [Const(x) for x in av.v]
        if is_const(av, str):
            return [Const(c) for c in av.v]
        if isinstance(av, DictV):
            return [k for k, _ in av.items]
        return None

    def _comp_envs(self, module, gens, env, node):
        """Environments for each combination the generators produce (nested
        loops, filters decided on constants); None if something is unknown."""
        envs = [env]
        for g in gens:
            nxt = []
            for e0 in envs:
                elts = self.iterate(self._eval(module, g.iter, e0))
                if elts is None:
                    return None
                for e in elts:
                    env2 = ChainEnv(e0)
                    self.assign(module, g.target, e, env2, node)
                    ok = True
                    for c in g.ifs:
                        t = self._eval(module, c, env2)
                        if not is_const(t):
                            return None
                        ok = ok and bool(t.v)
                    if ok:
                        nxt.append(env2)
            envs = nxt
            if len(envs) > 5000:
                return None
        return envs

    def dictcomp(self, module, node, env):
        envs = self._comp_envs(module, node.generators, env, node)
        if envs is None:
            return Unknown('dictcomp over non-literal at %s:%d' % (
                module.rel, node.lineno), node)
        d = DictV()
        d.sites = {}
        for env2 in envs:
            k = self._eval(module, node.key, env2)
            v = self._eval(module, node.value, env2)
            if v.site is None:
                v.site = (module, node.lineno)
            d.set(k, v)
        return d

    def listcomp(self, module, node, env):
        envs = self._comp_envs(module, node.generators, env, node)
        if envs is None:
            return Unknown('comprehension over non-literal', node)
        out = [self._eval(module, node.elt, env2) for env2 in envs]
        return SeqV('set' if isinstance(node, ast.SetComp) else 'list', out)


class ModuleV(AV):
    def __init__(self, m):
        self.m = m

    def __repr__(self):
        return 'ModuleV(%s)' % self.m.name


class BoundV(AV):
    """A bound method of an abstract value (str/dict/list methods)."""

    def __init__(self, base, attr):
        self.base, self.attr = base, attr

    def __repr__(self):
        return 'BoundV(%r.%s)' % (self.base, self.attr)


class ChainEnv(dict):
    def __init__(self, parent):
        super().__init__()
        self.parent = parent

    def __contains__(self, k):
        return dict.__contains__(self, k) or k in self.parent

    def __getitem__(self, k):
        if dict.__contains__(self, k):
            return dict.__getitem__(self, k)
        return self.parent[k]

    def get(self, k, d=None):
        return self[k] if k in self else d


class ClassEnv(ChainEnv):
    pass


def _as_load(t):
    import copy
    t2 = copy.deepcopy(t)
    for n in ast.walk(t2):
        if hasattr(n, 'ctx'):
            n.ctx = ast.Load()
    return t2


def _binop(op, a, b):
    import operator as o
    table = {ast.Add: o.add, ast.Sub: o.sub, ast.Mult: o.mul, ast.Div: o.truediv,
             ast.FloorDiv: o.floordiv, ast.Mod: o.mod, ast.Pow: o.pow,
             ast.LShift: o.lshift, ast.RShift: o.rshift, ast.BitOr: o.or_,
             ast.BitAnd: o.and_, ast.BitXor: o.xor}
    if isinstance(op, ast.Pow) and isinstance(b, int) and abs(b) > 4096:
        raise ValueError
    return table[type(op)](a, b)


def _cmp(op, a, b):
    import operator as o
    table = {ast.Eq: o.eq, ast.NotEq: o.ne, ast.Lt: o.lt, ast.LtE: o.le,
             ast.Gt: o.gt, ast.GtE: o.ge, ast.Is: o.is_, ast.IsNot: o.is_not,
             ast.In: lambda x, y: x in y, ast.NotIn: lambda x, y: x not in y}
    return table[type(op)](a, b)
