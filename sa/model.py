"""E1 - source model: modules, imports, classes, functions (ast only)."""
import ast
import hashlib
import os


class AnalysisError(Exception):
    """The analysis cannot decide (missing anchor, unparsable file, unknown idiom).

    Always reported as ANALYSIS-ERROR / exit 2, never as a violation or a pass.
    """


PKG = 'formulas'


def norm_src(node):
    """Normalised source text of a node (position independent)."""
    try:
        return ast.unparse(node)
    except Exception:  # pragma: no cover
        return ast.dump(node)


class FuncInfo:
    def __init__(self, module, node, qualname, cls=None, parent=None):
        self.module, self.node, self.qualname = module, node, qualname
        self.cls, self.parent = cls, parent
        self.nested = {}  # name -> FuncInfo (nested defs)
        self.lambdas = []  # FuncInfo of lambdas directly inside
        self.local_imports = None

    @property
    def name(self):
        return getattr(self.node, 'name', '<lambda>')

    @property
    def is_lambda(self):
        return isinstance(self.node, ast.Lambda)

    @property
    def fq(self):
        return '%s::%s' % (self.module.rel, self.qualname)

    @property
    def lineno(self):
        return self.node.lineno

    @property
    def params(self):
        a = self.node.args
        return [x.arg for x in a.posonlyargs + a.args]

    @property
    def vararg(self):
        a = self.node.args
        return a.vararg.arg if a.vararg else None

    @property
    def kwonly(self):
        return [x.arg for x in self.node.args.kwonlyargs]

    @property
    def kwarg(self):
        a = self.node.args
        return a.kwarg.arg if a.kwarg else None

    @property
    def all_params(self):
        r = self.params + self.kwonly
        if self.vararg:
            r.append(self.vararg)
        if self.kwarg:
            r.append(self.kwarg)
        return r

    @property
    def body(self):
        if self.is_lambda:
            return [ast.Return(value=self.node.body, lineno=self.node.lineno,
                               col_offset=0)]
        return self.node.body

    def decorators(self):
        return getattr(self.node, 'decorator_list', [])

    def __repr__(self):
        return '<Func %s>' % self.fq


class ClassInfo:
    def __init__(self, module, node, qualname):
        self.module, self.node, self.qualname = module, node, qualname
        self.methods = {}
        self.attrs = {}  # class-level simple assignments name -> value node
        self.base_exprs = list(node.bases)
        self.bases = []  # resolved: ClassInfo or dotted str

    @property
    def name(self):
        return self.node.name

    @property
    def fq(self):
        return '%s::%s' % (self.module.rel, self.qualname)

    def __repr__(self):
        return '<Class %s>' % self.fq


def _negate(t):
    """The negation of a test, spelled the way the normaliser spells it."""
    if isinstance(t, ast.UnaryOp) and isinstance(t.op, ast.Not):
        return t.operand
    flip = {ast.Eq: ast.NotEq, ast.NotEq: ast.Eq, ast.Is: ast.IsNot,
            ast.IsNot: ast.Is, ast.In: ast.NotIn, ast.NotIn: ast.In}
    if isinstance(t, ast.Compare) and len(t.ops) == 1 and type(
            t.ops[0]) in flip:
        return ast.copy_location(ast.Compare(
            left=t.left, ops=[flip[type(t.ops[0])]()],
            comparators=t.comparators), t)
    return ast.copy_location(ast.UnaryOp(op=ast.Not(), operand=t), t)


def _fold_const_attrs(root):
    """`getattr(x, 'name')` -> `x.name`, `setattr(x, 'name', v)` as a
    statement -> `x.name = v` (constant identifier names), and a
    comprehension over a short literal tuple of constants written out:
    `{k: getattr(s, k) for k in ('a', 'b')}` -> `{'a': s.a, 'b': s.b}`."""
    import copy

    class Sub(ast.NodeTransformer):
        def __init__(self, m):
            self.m = m

        def visit_Name(self, n):
            if isinstance(n.ctx, ast.Load) and n.id in self.m:
                return copy.deepcopy(self.m[n.id])
            return n

    def rows(g):
        if g.ifs or g.is_async or not isinstance(
                g.iter, (ast.Tuple, ast.List)) or not g.iter.elts or len(
                g.iter.elts) > 32:
            return None
        out = []
        for e in g.iter.elts:
            if isinstance(g.target, ast.Name) and isinstance(e, ast.Constant):
                out.append({g.target.id: e})
            elif isinstance(g.target, ast.Tuple) and isinstance(
                    e, ast.Tuple) and len(e.elts) == len(
                    g.target.elts) and all(isinstance(
                        t, ast.Name) for t in g.target.elts) and all(
                    isinstance(x, ast.Constant) for x in e.elts):
                out.append({t.id: x for t, x in zip(g.target.elts, e.elts)})
            else:
                return None
        return out

    class T(ast.NodeTransformer):
        def visit_DictComp(self, n):
            self.generic_visit(n)
            r = rows(n.generators[0]) if len(n.generators) == 1 else None
            if r is None:
                return n
            return ast.copy_location(ast.Dict(
                keys=[self.visit(Sub(m).visit(copy.deepcopy(n.key)))
                      for m in r],
                values=[self.visit(Sub(m).visit(copy.deepcopy(n.value)))
                        for m in r]), n)

        def visit_ListComp(self, n):
            self.generic_visit(n)
            r = rows(n.generators[0]) if len(n.generators) == 1 else None
            if r is None:
                return n
            return ast.copy_location(ast.List(elts=[
                self.visit(Sub(m).visit(copy.deepcopy(n.elt))) for m in r],
                ctx=ast.Load()), n)

        def visit_Call(self, n):
            self.generic_visit(n)
            if isinstance(n.func, ast.Name) and n.func.id == 'getattr' and \
                    len(n.args) == 2 and not n.keywords and isinstance(
                    n.args[1], ast.Constant) and isinstance(
                    n.args[1].value, str) and n.args[1].value.isidentifier():
                return ast.copy_location(ast.Attribute(
                    value=n.args[0], attr=n.args[1].value, ctx=ast.Load()), n)
            # `list(('a', 'b'))` -> `['a', 'b']` (after a table was written out)
            if isinstance(n.func, ast.Name) and n.func.id in (
                    'list', 'tuple') and len(n.args) == 1 and \
                    not n.keywords and isinstance(
                    n.args[0], (ast.Tuple, ast.List)) and all(
                    isinstance(e, ast.Constant) for e in n.args[0].elts):
                cls_ = ast.List if n.func.id == 'list' else ast.Tuple
                return ast.copy_location(cls_(elts=n.args[0].elts,
                                              ctx=ast.Load()), n)
            return n

        def visit_Expr(self, n):
            self.generic_visit(n)
            v = n.value
            if isinstance(v, ast.Call) and isinstance(
                    v.func, ast.Name) and v.func.id == 'setattr' and len(
                    v.args) == 3 and not v.keywords and isinstance(
                    v.args[1], ast.Constant) and isinstance(
                    v.args[1].value, str) and v.args[1].value.isidentifier():
                return ast.copy_location(ast.Assign(targets=[ast.Attribute(
                    value=v.args[0], attr=v.args[1].value, ctx=ast.Store())],
                    value=v.args[2]), n)
            return n

    return T().visit(root)


def _flatten_terminating_arms(fn):
    """`if c: <ends in return/raise/continue/break> else: B` -> the `if`
    without else, followed by B; `if c: A else: <ends in ...>` -> `if not c:
    <...>` followed by A.  Guard clauses are the canonical spelling: the same
    statements come out whether the source nests or leaves early."""
    def term(stmts):
        return bool(stmts) and isinstance(
            stmts[-1], (ast.Return, ast.Raise, ast.Continue, ast.Break))

    def do(stmts):
        out = []
        for st in stmts:
            if isinstance(st, (ast.FunctionDef, ast.AsyncFunctionDef,
                               ast.ClassDef)):
                out.append(st)
                continue
            for fld in ('body', 'orelse', 'finalbody'):
                sub = getattr(st, fld, None)
                if isinstance(sub, list) and sub and isinstance(
                        sub[0], ast.stmt):
                    setattr(st, fld, do(sub))
            for h in getattr(st, 'handlers', []) or []:
                h.body = do(h.body)
            if isinstance(st, ast.If) and st.orelse and term(st.body):
                rest, st.orelse = st.orelse, []
                out.append(st)
                out.extend(rest)
            elif isinstance(st, ast.If) and st.orelse and term(st.orelse):
                rest = st.body
                st.test = _negate(st.test)
                st.body, st.orelse = st.orelse, []
                out.append(st)
                out.extend(rest)
            else:
                out.append(st)
        # `if c: LONG...return` followed by `SHORT...return`: the shorter of
        # two terminating alternatives is the guard
        for i, st in enumerate(out):
            if isinstance(st, ast.If) and not st.orelse and term(st.body):
                rest = out[i + 1:]
                if rest and term(rest) and size(st.body) > size(rest):
                    st.test = _negate(st.test)
                    body = st.body
                    st.body = rest
                    return out[:i + 1] + do(body)
        return out

    def size(stmts):
        return sum(1 for s_ in stmts for x in ast.walk(s_)
                   if isinstance(x, ast.stmt))

    fn.body = do(fn.body)


def _unroll_table_loops(fn, consts=None):
    """`for a, b in ((x1, y1), (x2, y2)): f(a, b)` -> `f(x1, y1)`; `f(x2, y2)`:
    a loop over a literal table (written inline or kept in a module-level
    constant assigned once) whose body is one call statement is the
    table-driven spelling of a run of calls (likewise a body that is one item
    assignment `d[a] = g(b)`).  The loop variables must not be
    used after the loop, and at most 32 rows are unrolled."""
    import copy
    consts = consts or {}

    def rows_of(it, arity):
        if isinstance(it, ast.Name) and it.id in consts:
            it = consts[it.id]
        if not isinstance(it, (ast.Tuple, ast.List)) or not it.elts or \
                len(it.elts) > 32:
            return None
        rows = []
        for e in it.elts:
            if isinstance(e, ast.Starred):
                return None
            if arity == 0:
                rows.append([e])
            elif isinstance(e, (ast.Tuple, ast.List)) and len(
                    e.elts) == arity and not any(
                    isinstance(x, ast.Starred) for x in e.elts):
                rows.append(list(e.elts))
            else:
                return None
        return rows

    class Sub(ast.NodeTransformer):
        def __init__(self, m):
            self.m = m

        def visit_Name(self, n):
            if isinstance(n.ctx, ast.Load) and n.id in self.m:
                return copy.deepcopy(self.m[n.id])
            return n

    for holder in ast.walk(fn):
        for fld in ('body', 'orelse', 'finalbody'):
            stmts = getattr(holder, fld, None)
            if not (isinstance(stmts, list) and stmts and isinstance(
                    stmts[0], ast.stmt)):
                continue
            i = 0
            while i < len(stmts):
                lp = stmts[i]
                i += 1
                if not (isinstance(lp, ast.For) and not lp.orelse and len(
                        lp.body) == 1 and (
                        isinstance(lp.body[0], ast.Expr) and isinstance(
                            lp.body[0].value, ast.Call) or
                        isinstance(lp.body[0], ast.Assign) and len(
                            lp.body[0].targets) == 1 and isinstance(
                            lp.body[0].targets[0], ast.Subscript))):
                    continue
                if isinstance(lp.target, ast.Name):
                    names, arity = [lp.target.id], 0
                elif isinstance(lp.target, ast.Tuple) and all(
                        isinstance(e, ast.Name) for e in lp.target.elts):
                    names = [e.id for e in lp.target.elts]
                    arity = len(names)
                else:
                    continue
                rows = rows_of(lp.iter, arity)
                if rows is None:
                    continue
                inside = {id(n) for n in ast.walk(lp)}
                rebound = set()
                for other in ast.walk(fn):
                    if other is not lp and isinstance(other, ast.For):
                        for n in ast.walk(other):
                            if isinstance(n, ast.Name) and n.id in {
                                    x.id for x in ast.walk(other.target)
                                    if isinstance(x, ast.Name)}:
                                rebound.add(id(n))
                # reads after the name has been assigned afresh in the same
                # block are reads of that new value
                for nm in names:
                    for j in range(i, len(stmts)):
                        st_ = stmts[j]
                        if isinstance(st_, ast.Assign) and any(
                                isinstance(t_, ast.Name) and t_.id == nm
                                for t_ in st_.targets) and not any(
                                isinstance(x, ast.Name) and x.id == nm
                                for x in ast.walk(st_.value)):
                            for later in stmts[j:]:
                                rebound |= {id(x) for x in ast.walk(later)
                                            if isinstance(x, ast.Name)
                                            and x.id == nm}
                            break
                        if any(isinstance(x, ast.Name) and x.id == nm
                               for x in ast.walk(st_)):
                            break
                if any(isinstance(n, ast.Name) and n.id in names and
                       isinstance(n.ctx, ast.Load) and id(n) not in inside and
                       id(n) not in rebound for n in ast.walk(fn)):
                    continue
                if any(isinstance(n, ast.Name) and n.id in names and
                       isinstance(n.ctx, ast.Store)
                       for n in ast.walk(lp.body[0])):
                    continue
                out = []
                for r in rows:
                    st = copy.deepcopy(lp.body[0])
                    st = Sub(dict(zip(names, r))).visit(st)
                    ast.copy_location(st, lp)
                    for n in ast.walk(st):
                        if hasattr(n, 'lineno'):
                            n.lineno = getattr(lp, 'lineno', 1)
                            n.end_lineno = getattr(lp, 'end_lineno', n.lineno)
                    out.append(st)
                stmts[i - 1:i] = out
                i += len(out) - 1


def _flags_to_for_else(fn):
    """`found = False` / `for ...: ... found = True; break` / `if not found:
    BODY` -> `for ... else: BODY`: the flag form of for-else.  Applied only
    when the flag is set to True exactly before every `break` of that loop and
    nowhere else, and read only by the `if` that directly follows the loop."""
    def const(v, val):
        return isinstance(v, ast.Constant) and v.value is val

    def loop_breaks(loop):
        """(statement list, index) of each break that leaves this loop."""
        out = []

        def rec(stmts):
            for i, st in enumerate(stmts):
                if isinstance(st, ast.Break):
                    out.append((stmts, i))
                if isinstance(st, (ast.For, ast.While, ast.FunctionDef,
                                   ast.AsyncFunctionDef, ast.ClassDef)):
                    continue
                for fld in ('body', 'orelse', 'finalbody'):
                    sub = getattr(st, fld, None)
                    if isinstance(sub, list) and sub and isinstance(
                            sub[0], ast.stmt):
                        rec(sub)
                for h in getattr(st, 'handlers', []) or []:
                    rec(h.body)
        rec(loop.body)
        return out

    for holder in ast.walk(fn):
        for fld in ('body', 'orelse', 'finalbody'):
            stmts = getattr(holder, fld, None)
            if not (isinstance(stmts, list) and len(stmts) >= 3 and isinstance(
                    stmts[0], ast.stmt)):
                continue
            i = 0
            while i + 2 < len(stmts):
                a, lp, c = stmts[i], stmts[i + 1], stmts[i + 2]
                i += 1
                if not (isinstance(a, ast.Assign) and len(a.targets) == 1 and
                        isinstance(a.targets[0], ast.Name) and
                        const(a.value, False) and
                        isinstance(lp, (ast.For, ast.While)) and
                        not lp.orelse and isinstance(c, ast.If) and
                        not c.orelse):
                    continue
                flag = a.targets[0].id
                t = c.test
                if not (isinstance(t, ast.UnaryOp) and isinstance(
                        t.op, ast.Not) and isinstance(t.operand, ast.Name) and
                        t.operand.id == flag):
                    continue
                brk = loop_breaks(lp)
                if not brk:
                    continue
                sets = []
                ok = True
                for lst, j in brk:
                    p_ = lst[j - 1] if j > 0 else None
                    if isinstance(p_, ast.Assign) and len(
                            p_.targets) == 1 and isinstance(
                            p_.targets[0], ast.Name) and p_.targets[
                            0].id == flag and const(p_.value, True):
                        sets.append(p_)
                    else:
                        ok = False
                if not ok:
                    continue
                uses = [n for n in ast.walk(fn) if isinstance(n, ast.Name)
                        and n.id == flag]
                allowed = {id(a.targets[0]), id(t.operand)} | {
                    id(p_.targets[0]) for p_ in sets}
                if any(id(n) not in allowed for n in uses):
                    continue
                for lst, j in brk:
                    del lst[j - 1]
                lp.orelse = c.body
                del stmts[i + 1]   # the `if not flag`
                del stmts[i - 1]   # the `flag = False`
                i -= 1


def _loops_to_comprehensions(fn):
    """`X = []` / `{}` / `set()` immediately followed by a loop whose only
    effect is `X.append(e)` / `X.add(e)` / `X[k] = v` (under nested `for`s and
    one-armed `if`s) -> `X = [e for ... if ...]` (set / dict comprehension
    likewise).  The loop variables must not be read after the loop and X must
    not be read inside it.  One spelling for rules that look at how a
    collection is built."""
    SCOPES = (ast.FunctionDef, ast.AsyncFunctionDef, ast.Lambda, ast.ClassDef)

    def empty_kind(v):
        if isinstance(v, ast.List) and not v.elts:
            return 'list'
        if isinstance(v, ast.Dict) and not v.keys:
            return 'dict'
        if isinstance(v, ast.Call) and isinstance(v.func, ast.Name) and \
                not v.args and not v.keywords and v.func.id in (
                'list', 'dict', 'set'):
            return v.func.id
        return None

    def peel(loop, x):
        """generators and the single leaf statement of the loop nest."""
        gens, cur = [], loop
        while True:
            if isinstance(cur, ast.For) and not cur.orelse and len(
                    cur.body) == 1:
                gens.append(ast.comprehension(target=cur.target, iter=cur.iter,
                                              ifs=[], is_async=0))
                cur = cur.body[0]
            elif isinstance(cur, ast.If) and not cur.orelse and len(
                    cur.body) == 1 and gens:
                gens[-1].ifs.append(cur.test)
                cur = cur.body[0]
            else:
                break
        if not gens:
            return None
        return gens, cur

    for holder in ast.walk(fn):
        for fld in ('body', 'orelse', 'finalbody'):
            stmts = getattr(holder, fld, None)
            if not (isinstance(stmts, list) and stmts and isinstance(
                    stmts[0], ast.stmt)):
                continue
            i = 0
            while i + 1 < len(stmts):
                a, b = stmts[i], stmts[i + 1]
                i += 1
                if not (isinstance(a, ast.Assign) and len(a.targets) == 1 and
                        isinstance(a.targets[0], ast.Name) and
                        isinstance(b, ast.For)):
                    continue
                kind = empty_kind(a.value)
                if kind is None:
                    continue
                x = a.targets[0].id
                pe = peel(b, x)
                if pe is None:
                    continue
                gens, leaf = pe
                comp = None
                if kind == 'dict' and isinstance(leaf, ast.Assign) and len(
                        leaf.targets) == 1 and isinstance(
                        leaf.targets[0], ast.Subscript) and isinstance(
                        leaf.targets[0].value, ast.Name) and \
                        leaf.targets[0].value.id == x:
                    comp = ast.DictComp(key=leaf.targets[0].slice,
                                        value=leaf.value, generators=gens)
                    parts = [leaf.targets[0].slice, leaf.value]
                elif kind in ('list', 'set') and isinstance(
                        leaf, ast.Expr) and isinstance(
                        leaf.value, ast.Call) and isinstance(
                        leaf.value.func, ast.Attribute) and isinstance(
                        leaf.value.func.value, ast.Name) and \
                        leaf.value.func.value.id == x and len(
                        leaf.value.args) == 1 and not leaf.value.keywords and \
                        not isinstance(leaf.value.args[0], ast.Starred) and \
                        leaf.value.func.attr == (
                            'append' if kind == 'list' else 'add'):
                    cls = ast.ListComp if kind == 'list' else ast.SetComp
                    comp = cls(elt=leaf.value.args[0], generators=gens)
                    parts = [leaf.value.args[0]]
                if comp is None:
                    continue
                inner = parts + [g.iter for g in gens] + [
                    c for g in gens for c in g.ifs]
                if any(isinstance(n, ast.Name) and n.id == x
                       for e in inner for n in ast.walk(e)):
                    continue
                if any(isinstance(n, (ast.Yield, ast.YieldFrom, ast.Await,
                                      ast.NamedExpr) + SCOPES)
                       for e in inner for n in ast.walk(e)):
                    continue
                tnames = {n.id for g in gens for n in ast.walk(g.target)
                          if isinstance(n, ast.Name)}
                if any(not isinstance(n, ast.Name) for g in gens
                       for n in ast.walk(g.target)
                       if not isinstance(n, (ast.Tuple, ast.List, ast.Store,
                                             ast.Load, ast.Starred))):
                    continue  # loop target is an attribute / subscript
                inside = {id(n) for n in ast.walk(b)}
                # a read of a loop variable elsewhere is harmless when another
                # loop / comprehension (re)binds that name around it
                for other in ast.walk(fn):
                    if other is b or not isinstance(
                            other, (ast.For, ast.ListComp, ast.SetComp,
                                    ast.DictComp, ast.GeneratorExp)):
                        continue
                    tg = [other.target] if isinstance(other, ast.For) \
                        else [g.target for g in other.generators]
                    bound = {n.id for t in tg for n in ast.walk(t)
                             if isinstance(n, ast.Name)}
                    scope = (other.body if isinstance(other, ast.For)
                             else [other])
                    outer_it = set() if isinstance(other, ast.For) else {
                        id(n) for n in ast.walk(other.generators[0].iter)}
                    for st in scope:
                        inside |= {id(n) for n in ast.walk(st) if isinstance(
                            n, ast.Name) and n.id in bound and
                            id(n) not in outer_it}
                if any(isinstance(n, ast.Name) and n.id in tnames and
                       isinstance(n.ctx, ast.Load) and
                       id(n) not in inside for n in ast.walk(fn)):
                    continue  # a loop variable is read after the loop
                ast.copy_location(comp, a.value)
                comp.end_lineno = getattr(b, 'end_lineno', b.lineno)
                a.value = comp
                a.end_lineno = comp.end_lineno
                stmts.remove(b)
                i -= 1


def _inline_adjacent_temporaries(fn):
    """`t = e` immediately followed by the only statement that reads `t` ->
    that statement with `e` in place of `t` (repeated until nothing changes).
    `t` must be a plain local bound exactly once and read exactly once in the
    whole function, not captured by a nested scope.  Rules then see the same
    shape whether or not the source names an intermediate result."""
    SCOPES = (ast.FunctionDef, ast.AsyncFunctionDef, ast.Lambda, ast.ClassDef)
    params = {a.arg for a in fn.args.posonlyargs + fn.args.args +
              fn.args.kwonlyargs}
    if fn.args.vararg:
        params.add(fn.args.vararg.arg)
    if fn.args.kwarg:
        params.add(fn.args.kwarg.arg)
    for _round in range(20):
        stores, loads, captured = {}, {}, set()
        for node in ast.walk(fn):
            if isinstance(node, SCOPES) and node is not fn:
                for x in ast.walk(node):
                    if isinstance(x, ast.Name):
                        captured.add(x.id)
            if isinstance(node, (ast.Global, ast.Nonlocal)):
                captured |= set(node.names)
            if isinstance(node, ast.Name):
                d = stores if isinstance(node.ctx, (ast.Store, ast.Del)) \
                    else loads
                d[node.id] = d.get(node.id, 0) + 1
        changed = False
        for holder in ast.walk(fn):
            for fld in ('body', 'orelse', 'finalbody'):
                stmts = getattr(holder, fld, None)
                if not (isinstance(stmts, list) and stmts and isinstance(
                        stmts[0], ast.stmt)):
                    continue
                i = 0
                while i + 1 < len(stmts):
                    a, b = stmts[i], stmts[i + 1]
                    if isinstance(a, ast.Assign) and len(a.targets) == 1 and \
                            isinstance(a.targets[0], ast.Name):
                        t = a.targets[0].id
                        if t not in params and t not in captured and \
                                stores.get(t) == 1 and loads.get(t) == 1 and \
                                not isinstance(a.value, (ast.Yield, ast.YieldFrom,
                                                         ast.Await)) and \
                                not isinstance(b, SCOPES) and \
                                not isinstance(b, (ast.While, ast.With,
                                                   ast.Try)):
                            # (the iterable of a `for` is evaluated once, like
                            # the head of a simple statement)
                            heads = list(ast.walk(b.iter)) if isinstance(
                                b, ast.For) else _stmt_head_nodes(b)
                            uses = [x for x in heads
                                    if isinstance(x, ast.Name) and x.id == t
                                    and isinstance(x.ctx, ast.Load)]
                            if len(uses) == 1:
                                _replace_node(b, uses[0], a.value)
                                del stmts[i]
                                changed = True
                                stores[t] = loads[t] = 0
                                continue
                    i += 1
        if not changed:
            break


def _stmt_head_nodes(st):
    """Nodes of the expressions a statement evaluates itself (for an `if`, its
    test; not the nested statement lists)."""
    out = []
    for name, val in ast.iter_fields(st):
        if name in ('body', 'orelse', 'finalbody', 'handlers', 'cases'):
            continue
        vals = val if isinstance(val, list) else [val]
        for v in vals:
            if isinstance(v, ast.AST):
                out.extend(ast.walk(v))
    return out


def _replace_node(root, old, new):
    for parent in ast.walk(root):
        for name, val in ast.iter_fields(parent):
            if val is old:
                setattr(parent, name, new)
                return True
            if isinstance(val, list):
                for i, v in enumerate(val):
                    if v is old:
                        val[i] = new
                        return True
    return False


_RECORDED = None


def _recorded_names(rel):
    """Module-level names of the pinned tree (spec/anchors.json); every name
    counts as recorded when the table is missing, so nothing is propagated."""
    global _RECORDED
    if _RECORDED is None:
        import json
        path = os.path.join(os.path.dirname(os.path.dirname(
            os.path.abspath(__file__))), 'spec', 'anchors.json')
        try:
            with open(path) as f:
                _RECORDED = {k: set(v) for k, v in json.load(f).get(
                    'module_names', {}).items()}
        except Exception:
            _RECORDED = {}
    return _RECORDED.get(rel) if rel in _RECORDED else _Everything()


class _Everything:
    def __contains__(self, x):
        return True


def _propagate_new_constants(tree, known):
    """A module-level name that is *new* relative to the record of the pinned
    tree, assigned exactly once from a literal (number, string, tuple of
    literals), is replaced by that literal where functions of the module read
    it: "name the magic numbers" leaves the canonical form unchanged."""
    def literal(v):
        if isinstance(v, ast.Constant):
            return True
        if isinstance(v, ast.UnaryOp) and isinstance(
                v.op, (ast.USub, ast.UAdd)) and isinstance(
                v.operand, ast.Constant):
            return True
        return isinstance(v, ast.Tuple) and all(literal(e) for e in v.elts)

    cands, stores = {}, {}
    for x in ast.walk(tree):
        if isinstance(x, ast.Name) and isinstance(x.ctx, (ast.Store, ast.Del)):
            stores[x.id] = stores.get(x.id, 0) + 1
        elif isinstance(x, (ast.Global, ast.Nonlocal)):
            for nm in x.names:
                stores[nm] = stores.get(nm, 0) + 2
        elif isinstance(x, ast.arg):
            stores[x.arg] = stores.get(x.arg, 0) + 2
    own_defs = set()
    for st in tree.body:
        pairs = []
        if isinstance(st, ast.Assign) and len(st.targets) > 1 and all(
                isinstance(t, ast.Name) for t in st.targets):
            pairs = [(t, st.value) for t in st.targets]   # a = b = 60
        elif isinstance(st, ast.Assign) and len(st.targets) == 1:
            t, v = st.targets[0], st.value
            if isinstance(t, ast.Name):
                pairs = [(t, v)]
            elif isinstance(t, ast.Tuple) and isinstance(
                    v, ast.Tuple) and len(t.elts) == len(v.elts) and all(
                    isinstance(e, ast.Name) for e in t.elts):
                pairs = list(zip(t.elts, v.elts))
        for t, v in pairs:
            nm = t.id
            if literal(v) and nm not in known and stores.get(nm) == 1 and \
                    not (nm.startswith('__') and nm.endswith('__')):
                cands[nm] = v
                own_defs.add(id(st))
    if not cands:
        return 0
    import copy
    n_done = [0]

    class T(ast.NodeTransformer):
        def visit_Name(self, n):
            if isinstance(n.ctx, ast.Load) and n.id in cands:
                n_done[0] += 1
                return ast.copy_location(copy.deepcopy(cands[n.id]), n)
            return n

    for st in tree.body:
        if isinstance(st, (ast.FunctionDef, ast.AsyncFunctionDef,
                           ast.ClassDef)):
            T().visit(st)
        elif isinstance(st, ast.Assign) and id(st) not in own_defs:
            st.value = T().visit(st.value)
    return n_done[0]


class _PolarityNormaliser(ast.NodeTransformer):
    """One spelling for tests: `not not x` -> `x`; `not (a is b)` -> `a is not b`
    (likewise in / == and their negations); a two-armed `if not c: A else: B`
    (statement or conditional expression) -> `if c: B else: A`.  Rules are
    written against the positive form and need not know the other."""
    FLIP = {ast.Is: ast.IsNot, ast.IsNot: ast.Is, ast.In: ast.NotIn,
            ast.NotIn: ast.In, ast.Eq: ast.NotEq, ast.NotEq: ast.Eq}

    def visit_UnaryOp(self, n):
        self.generic_visit(n)
        if isinstance(n.op, ast.Not):
            x = n.operand
            if isinstance(x, ast.UnaryOp) and isinstance(x.op, ast.Not) and \
                    self._boolean(x.operand):
                return x.operand
            if isinstance(x, ast.Compare) and len(x.ops) == 1 and \
                    type(x.ops[0]) in self.FLIP:
                x.ops = [self.FLIP[type(x.ops[0])]()]
                return x
            # `not (not a or b)` -> `a and not b`: a negation is pushed into
            # a conjunction / disjunction that already negates one of its
            # operands (when all of them are plain, `not (a or b)` stays)
            if isinstance(x, ast.BoolOp) and any(
                    isinstance(v, ast.UnaryOp) and isinstance(v.op, ast.Not)
                    for v in x.values):
                vals = []
                for v in x.values:
                    if isinstance(v, ast.UnaryOp) and isinstance(
                            v.op, ast.Not):
                        vals.append(v.operand)
                    else:
                        vals.append(self.visit_UnaryOp(ast.copy_location(
                            ast.UnaryOp(op=ast.Not(), operand=v), v))
                            if not isinstance(v, ast.BoolOp) else
                            ast.copy_location(ast.UnaryOp(
                                op=ast.Not(), operand=v), v))
                new = ast.copy_location(ast.BoolOp(
                    op=ast.And() if isinstance(x.op, ast.Or) else ast.Or(),
                    values=vals), x)
                return new
        return n

    @staticmethod
    def _boolean(e):
        return isinstance(e, (ast.Compare, ast.BoolOp)) or (
            isinstance(e, ast.UnaryOp) and isinstance(e.op, ast.Not)) or (
            isinstance(e, ast.Call) and isinstance(e.func, ast.Name) and
            e.func.id in ('isinstance', 'callable', 'hasattr', 'any', 'all',
                          'bool', 'issubclass'))

    NEG = (ast.IsNot, ast.NotIn, ast.NotEq)

    def _strip(self, test):
        """The positive test if `test` is a negation (`not x`, `a != b`, `a is
        not b`, `a not in b`), else None."""
        if isinstance(test, ast.UnaryOp) and isinstance(test.op, ast.Not):
            return test.operand
        if isinstance(test, ast.Compare) and len(test.ops) == 1 and isinstance(
                test.ops[0], self.NEG):
            test.ops = [self.FLIP[type(test.ops[0])]()]
            return test
        return None

    def visit_Compare(self, n):
        """`1 == x` -> `x == 1` (==, !=, is, is not with the constant on the
        left): one side for the constant."""
        self.generic_visit(n)
        if len(n.ops) == 1 and isinstance(
                n.ops[0], (ast.Eq, ast.NotEq, ast.Is, ast.IsNot)) and \
                isinstance(n.left, ast.Constant) and not isinstance(
                n.comparators[0], ast.Constant):
            n.left, n.comparators = n.comparators[0], [n.left]
        return n

    def visit_BoolOp(self, n):
        """`a <= x and x <= b` -> `a <= x <= b` (same plain name in the
        middle); `not a or not b` -> `not (a and b)` and the dual."""
        self.generic_visit(n)
        flat = []
        for v in n.values:
            if isinstance(v, ast.BoolOp) and type(v.op) is type(n.op):
                flat.extend(v.values)
            else:
                flat.append(v)
        n.values = flat
        if isinstance(n.op, ast.And):
            vals, i = [], 0
            while i < len(n.values):
                a = n.values[i]
                b = n.values[i + 1] if i + 1 < len(n.values) else None
                order = (ast.Lt, ast.LtE, ast.Gt, ast.GtE)
                if isinstance(a, ast.Compare) and isinstance(
                        b, ast.Compare) and len(a.ops) == 1 and len(
                        b.ops) == 1 and isinstance(
                        a.ops[0], order) and isinstance(
                        b.ops[0], order) and isinstance(
                        a.comparators[0], ast.Name) and isinstance(
                        b.left, ast.Name) and \
                        a.comparators[0].id == b.left.id:
                    vals.append(ast.copy_location(ast.Compare(
                        left=a.left, ops=[a.ops[0], b.ops[0]],
                        comparators=[a.comparators[0], b.comparators[0]]), a))
                    i += 2
                else:
                    vals.append(a)
                    i += 1
            if len(vals) == 1:
                return vals[0]
            n.values = vals
        if len(n.values) >= 2 and all(isinstance(v, ast.UnaryOp) and
                                      isinstance(v.op, ast.Not)
                                      for v in n.values):
            inner = ast.BoolOp(
                op=ast.And() if isinstance(n.op, ast.Or) else ast.Or(),
                values=[v.operand for v in n.values])
            return ast.copy_location(ast.UnaryOp(
                op=ast.Not(), operand=ast.copy_location(inner, n)), n)
        return n

    def visit_If(self, n):
        self.generic_visit(n)
        # `if a: pass  else: X` -> `if not a: X`
        if n.orelse and n.body and all(isinstance(st, ast.Pass)
                                       for st in n.body):
            n.test = self.visit(_negate(n.test))
            n.body, n.orelse = n.orelse, []
        if n.orelse:
            inner = self._strip(n.test)
            if inner is not None:
                n.test = inner
                n.body, n.orelse = n.orelse, n.body
        # `if a: if b: X` (neither with an else) -> `if a and b: X`
        while not n.orelse and len(n.body) == 1 and isinstance(
                n.body[0], ast.If) and not n.body[0].orelse:
            inner_if = n.body[0]
            parts = []
            for t in (n.test, inner_if.test):
                if isinstance(t, ast.BoolOp) and isinstance(t.op, ast.And):
                    parts.extend(t.values)
                else:
                    parts.append(t)
            n.test = ast.copy_location(
                ast.BoolOp(op=ast.And(), values=parts), n.test)
            n.body = inner_if.body
        return n

    # -- single-use temporaries ------------------------------------------------
    def visit_FunctionDef(self, n):
        self.generic_visit(n)
        _flatten_terminating_arms(n)
        _inline_adjacent_temporaries(n)
        _unroll_table_loops(n, self.table_consts)
        _flags_to_for_else(n)
        _loops_to_comprehensions(n)
        _inline_adjacent_temporaries(n)
        _fold_const_attrs(n)
        return n

    visit_AsyncFunctionDef = visit_FunctionDef

    def visit_Assign(self, n):
        """`a, b = x, y` -> `a = x` / `b = y` when no target name occurs in the
        values: one spelling for rules that look at single assignments."""
        self.generic_visit(n)
        # `a, b = map(f, (x, y))` -> `a, b = f(x), f(y)`
        if len(n.targets) == 1 and isinstance(
                n.targets[0], (ast.Tuple, ast.List)) and isinstance(
                n.value, ast.Call) and isinstance(
                n.value.func, ast.Name) and n.value.func.id == 'map' and len(
                n.value.args) == 2 and not n.value.keywords and isinstance(
                n.value.args[0], (ast.Name, ast.Attribute)) and isinstance(
                n.value.args[1], (ast.Tuple, ast.List)) and len(
                n.value.args[1].elts) == len(n.targets[0].elts) and not any(
                isinstance(e, ast.Starred) for e in n.value.args[1].elts):
            import copy
            n.value = ast.copy_location(ast.Tuple(elts=[
                ast.copy_location(ast.Call(
                    func=copy.deepcopy(n.value.args[0]), args=[e],
                    keywords=[]), e)
                for e in n.value.args[1].elts], ctx=ast.Load()), n.value)
        if len(n.targets) == 1 and isinstance(
                n.targets[0], (ast.Tuple, ast.List)) and isinstance(
                n.value, (ast.Tuple, ast.List)) and len(
                n.targets[0].elts) == len(n.value.elts) and not any(
                isinstance(e, ast.Starred)
                for e in n.targets[0].elts + n.value.elts):
            ts, vs = n.targets[0].elts, n.value.elts
            # sequential execution equals the parallel one iff no value
            # mentions a target assigned before it
            independent = all(isinstance(t, ast.Name) for t in ts) and not any(
                isinstance(x, ast.Name) and x.id in {t.id for t in ts[:j]}
                for j, v in enumerate(vs) for x in ast.walk(v))
            if independent:
                out = []
                for t, v in zip(n.targets[0].elts, n.value.elts):
                    if isinstance(v, ast.Name) and v.id == t.id:
                        continue          # `x = x` does nothing
                    a = ast.Assign(targets=[t], value=v)
                    ast.copy_location(a, n)
                    a.end_lineno = getattr(n, 'end_lineno', n.lineno)
                    out.append(a)
                return out or ast.copy_location(ast.Pass(), n)
        if len(n.targets) == 1 and isinstance(
                n.targets[0], ast.Name) and isinstance(
                n.value, ast.Name) and n.value.id == n.targets[0].id:
            return ast.copy_location(ast.Pass(), n)
        return n

    def visit_Call(self, n):
        """`dict(a=x, b=y)` -> `{'a': x, 'b': y}` (the builtin called with
        keyword items only): one spelling for literal mappings."""
        self.generic_visit(n)
        # `list(e for ..)` / `set(e for ..)` / `dict((k, v) for ..)` -> the
        # comprehension (the builtin not rebound in the module)
        if isinstance(n.func, ast.Name) and n.func.id in (
                'list', 'set', 'dict') and len(n.args) == 1 and \
                not n.keywords and isinstance(n.args[0], ast.GeneratorExp) \
                and n.func.id not in self.rebound:
            g = n.args[0]
            if n.func.id == 'list':
                return ast.copy_location(ast.ListComp(
                    elt=g.elt, generators=g.generators), n)
            if n.func.id == 'set':
                return ast.copy_location(ast.SetComp(
                    elt=g.elt, generators=g.generators), n)
            if isinstance(g.elt, ast.Tuple) and len(g.elt.elts) == 2 and \
                    not any(isinstance(x, ast.Starred) for x in g.elt.elts):
                return ast.copy_location(ast.DictComp(
                    key=g.elt.elts[0], value=g.elt.elts[1],
                    generators=g.generators), n)
        # `list(('a', 'b'))` -> `['a', 'b']`, `tuple(['a'])` -> `('a',)`
        if isinstance(n.func, ast.Name) and n.func.id in ('list', 'tuple') \
                and len(n.args) == 1 and not n.keywords and isinstance(
                n.args[0], (ast.Tuple, ast.List)) and not any(
                isinstance(e, ast.Starred) for e in n.args[0].elts) and \
                n.func.id not in self.rebound:
            cls_ = ast.List if n.func.id == 'list' else ast.Tuple
            return ast.copy_location(cls_(elts=n.args[0].elts,
                                          ctx=ast.Load()), n)
        if isinstance(n.func, ast.Name) and n.func.id == 'dict' and \
                not n.args and n.keywords and all(
                k.arg is not None for k in n.keywords) and \
                not self.dict_rebound:
            d = ast.Dict(keys=[ast.copy_location(ast.Constant(k.arg), k.value)
                               for k in n.keywords],
                         values=[k.value for k in n.keywords])
            return ast.copy_location(d, n)
        return n

    dict_rebound = False
    table_consts = None
    rebound = frozenset()

    def visit_Module(self, n):
        # module-level constants assigned once from a literal tuple / list
        seen = {}
        for st in n.body:
            if isinstance(st, ast.Assign):
                for t in st.targets:
                    for x in ast.walk(t):
                        if isinstance(x, ast.Name):
                            seen.setdefault(x.id, []).append(
                                st.value if t is x else None)
        stored = {}
        for x in ast.walk(n):
            if isinstance(x, ast.Name) and isinstance(x.ctx, (ast.Store,
                                                            ast.Del)):
                stored[x.id] = stored.get(x.id, 0) + 1
        self.table_consts = {
            k: v[0] for k, v in seen.items()
            if len(v) == 1 and stored.get(k) == 1 and isinstance(
                v[0], (ast.Tuple, ast.List))}
        self.rebound = frozenset(
            x.id for x in ast.walk(n) if isinstance(x, ast.Name) and
            isinstance(x.ctx, ast.Store)) | frozenset(
            x.arg for x in ast.walk(n) if isinstance(x, ast.arg)) | frozenset(
            x.name for x in ast.walk(n) if isinstance(
                x, (ast.FunctionDef, ast.ClassDef)))
        self.dict_rebound = any(
            isinstance(x, ast.Name) and x.id == 'dict' and isinstance(
                x.ctx, ast.Store) or isinstance(x, ast.arg) and x.arg == 'dict'
            or isinstance(x, (ast.FunctionDef, ast.ClassDef)) and
            x.name == 'dict' or isinstance(x, ast.alias) and
            (x.asname or x.name) == 'dict' for x in ast.walk(n))
        self.generic_visit(n)
        return n

    def visit_IfExp(self, n):
        self.generic_visit(n)
        inner = self._strip(n.test)
        if inner is not None:
            n.test = inner
            n.body, n.orelse = n.orelse, n.body
        return n


class Module:
    def __init__(self, project, name, path, rel, normalise=True):
        self.project, self.name, self.path, self.rel = project, name, path, rel
        with open(path, 'rb') as f:
            raw = f.read()
        self.sha256 = hashlib.sha256(raw).hexdigest()
        self.src = raw.decode('utf-8')
        try:
            self.tree = ast.parse(self.src, filename=path)
        except SyntaxError as ex:
            raise AnalysisError('cannot parse %s: %s' % (rel, ex))
        _propagate_new_constants(self.tree, _recorded_names(rel))
        if normalise:
            _PolarityNormaliser().visit(self.tree)
        self.is_pkg = os.path.basename(path) == '__init__.py'
        self.imports = {}  # local name -> ('mod', dotted) | ('obj', dotted_mod, attr)
        self.functions = {}  # top-level name -> FuncInfo
        self.classes = {}  # top-level name -> ClassInfo
        self.all_funcs = []
        self.assigns = {}  # top-level name -> list of value nodes (in order)

    def abs_module(self, level, mod):
        """Resolve a relative import to a dotted module name."""
        if level == 0:
            return mod or ''
        parts = self.name.split('.')
        if not self.is_pkg:
            parts = parts[:-1]
        if level > 1:
            parts = parts[:-(level - 1)]
        if mod:
            parts = parts + mod.split('.')
        return '.'.join(parts)

    def import_table(self, stmts, table=None):
        table = {} if table is None else table
        for st in stmts:
            if isinstance(st, ast.Import):
                for a in st.names:
                    if a.asname:
                        table[a.asname] = ('mod', a.name)
                    else:
                        table[a.name.split('.')[0]] = ('mod', a.name.split('.')[0])
            elif isinstance(st, ast.ImportFrom):
                m = self.abs_module(st.level, st.module)
                for a in st.names:
                    if a.name == '*':
                        continue
                    table[a.asname or a.name] = ('obj', m, a.name)
        return table

    def __repr__(self):
        return '<Module %s>' % self.name


class Project:
    def __init__(self, root, inline=False):
        self.root = os.path.abspath(root)
        self.inline = inline
        self.pkgdir = os.path.join(self.root, PKG)
        if not os.path.isdir(self.pkgdir):
            raise AnalysisError('package directory %s not found' % self.pkgdir)
        self.modules = {}
        self.by_rel = {}
        for dp, dn, fn in sorted(os.walk(self.pkgdir)):
            dn.sort()
            if '__pycache__' in dp:
                continue
            for f in sorted(fn):
                if not f.endswith('.py'):
                    continue
                path = os.path.join(dp, f)
                rel = os.path.relpath(path, self.root)
                parts = rel[:-3].split(os.sep)
                if parts[-1] == '__init__':
                    parts = parts[:-1]
                name = '.'.join(parts)
                m = Module(self, name, path, rel, normalise=not inline)
                self.modules[name] = m
                self.by_rel[rel] = m
        self.n_inlined = 0
        if inline:
            # the equivalent view with new private helpers expanded at their
            # call sites (sa/inline.py): done on the source as written, the
            # canonical forms are computed afterwards
            from .inline import inline_modules
            self.n_inlined = inline_modules(
                {m.rel: m.tree for m in self.modules.values()})
            for m in self.modules.values():
                _PolarityNormaliser().visit(m.tree)
            from .inline import _renumber
            for m in self.modules.values():
                _renumber(m.tree)
        # a private definition that was only renamed is renamed back, so the
        # rules find their anchors (sa/anchors.py)
        from .anchors import rename_back
        self.renamed_back = rename_back(
            {m.rel: m.tree for m in self.modules.values()})
        self.functions = {}  # fq -> FuncInfo
        self.classes = {}  # fq -> ClassInfo
        self.func_of_node = {}
        for m in self.modules.values():
            self._index(m)
        for c in self.classes.values():
            c.bases = [self._resolve_base(c, b) for b in c.base_exprs]
        self.n_canonicalised = self._canonical_calls()

    def _canonical_calls(self):
        """Rewrite `f(a, y=b)` to `f(a, b)` in the analysed ASTs where `f` is a
        package function (resolved through the module's names, local names
        excluded) or a method reached through `self`, and `y` is the next
        positional parameter: rules then see one spelling of a call whether
        the source passes an argument by position or by keyword."""
        n_changed = 0
        for fi in list(self.functions.values()):
            selfn = None
            owner = fi
            while owner is not None and owner.cls is None:
                owner = owner.parent
            if owner is not None and owner.params:
                selfn = owner.params[0]
            local = set(fi.all_params)
            for n in own_nodes(fi):
                if isinstance(n, ast.Name) and isinstance(n.ctx, ast.Store):
                    local.add(n.id)
            for n in own_nodes(fi):
                if not isinstance(n, ast.Call) or not n.keywords or any(
                        isinstance(a, ast.Starred) for a in n.args) or any(
                        k.arg is None for k in n.keywords):
                    continue
                g, skip = None, 0
                if isinstance(n.func, ast.Name) and n.func.id not in local:
                    r = self.resolve_global(fi.module, n.func.id)
                    if r and r[0] == 'func':
                        g = r[1]
                elif isinstance(n.func, ast.Attribute) and isinstance(
                        n.func.value, ast.Name) and selfn is not None and \
                        n.func.value.id == selfn and owner.cls is not None:
                    g = self.find_method(owner.cls, n.func.attr)
                    if g is not None and any(
                            isinstance(d, ast.Name) and d.id in (
                                'staticmethod', 'property')
                            for d in g.decorators()):
                        g = None
                    skip = 1
                if g is None or g.is_lambda or g.decorators():
                    continue
                params = g.params[skip:]
                moved = True
                while moved:
                    moved = False
                    i = len(n.args)
                    if i < len(params):
                        for k in n.keywords:
                            if k.arg == params[i]:
                                n.args.append(k.value)
                                n.keywords.remove(k)
                                moved = True
                                n_changed += 1
                                break
        return n_changed

    # -- indexing ---------------------------------------------------------
    def _index(self, m):
        m.imports = m.import_table(m.tree.body)
        # also imports nested in top-level if/try
        for st in m.tree.body:
            if isinstance(st, (ast.If, ast.Try)):
                for sub in ast.walk(st):
                    if isinstance(sub, (ast.Import, ast.ImportFrom)):
                        m.import_table([sub], m.imports)
        self._index_body(m, m.tree.body, '', None, None)
        for st in m.tree.body:
            if isinstance(st, ast.Assign):
                for t in st.targets:
                    for n in _target_names(t):
                        m.assigns.setdefault(n, []).append(st.value)
            elif isinstance(st, ast.AnnAssign) and st.value is not None \
                    and isinstance(st.target, ast.Name):
                m.assigns.setdefault(st.target.id, []).append(st.value)

    def _index_body(self, m, body, prefix, cls, parent):
        for st in body:
            if isinstance(st, (ast.FunctionDef, ast.AsyncFunctionDef)):
                q = prefix + st.name
                fi = FuncInfo(m, st, q, cls=cls, parent=parent)
                self._add_func(m, fi)
                if cls is not None and parent is None:
                    cls.methods[st.name] = fi
                elif parent is not None:
                    parent.nested[st.name] = fi
                else:
                    m.functions[st.name] = fi
                self._index_inner(m, fi)
            elif isinstance(st, ast.ClassDef):
                q = prefix + st.name
                ci = ClassInfo(m, st, q)
                self.classes[ci.fq] = ci
                if cls is None and parent is None:
                    m.classes[st.name] = ci
                for s2 in st.body:
                    if isinstance(s2, ast.Assign):
                        for t in s2.targets:
                            for n in _target_names(t):
                                ci.attrs[n] = s2.value
                    elif isinstance(s2, ast.Expr):
                        pass
                self._index_body(m, st.body, q + '.', ci, None)
                # lambdas in class-level assignments
                for s2 in st.body:
                    if not isinstance(s2, (ast.FunctionDef, ast.ClassDef,
                                           ast.AsyncFunctionDef)):
                        self._index_lambdas(m, s2, q + '.', ci, None)
            elif isinstance(st, (ast.If, ast.Try, ast.With, ast.For,
                                 ast.While)):
                for fld in ('body', 'orelse', 'finalbody'):
                    self._index_body(m, getattr(st, fld, []) or [], prefix,
                                     cls, parent)
                for h in getattr(st, 'handlers', []) or []:
                    self._index_body(m, h.body, prefix, cls, parent)
                if parent is None:
                    for fld in ('test', 'iter'):
                        e = getattr(st, fld, None)
                        if e is not None:
                            self._index_lambdas(m, e, prefix, cls, parent)
            else:
                if parent is None:
                    self._index_lambdas(m, st, prefix, cls, parent)

    def _add_func(self, m, fi):
        # disambiguate duplicates (same qualname defined twice)
        key, k = fi.fq, 1
        while key in self.functions:
            k += 1
            key = '%s#%d' % (fi.fq, k)
        if k > 1:
            fi.qualname = '%s#%d' % (fi.qualname, k)
        self.functions[key] = fi
        self.func_of_node[id(fi.node)] = fi
        m.all_funcs.append(fi)

    def _index_inner(self, m, fi):
        """Index nested defs and lambdas inside a function."""
        prefix = fi.qualname + '.<locals>.'
        node = fi.node
        if isinstance(node, ast.Lambda):
            self._index_lambdas(m, node.body, prefix, fi.cls, fi)
            for d in node.args.defaults + [
                    x for x in node.args.kw_defaults if x is not None]:
                self._index_lambdas(m, d, prefix, fi.cls, fi)
            return
        # defaults and decorators belong to the enclosing scope but we attach
        # lambdas found there to this function (they are only callable via it)
        for d in node.args.defaults + [
                x for x in node.args.kw_defaults if x is not None]:
            self._index_lambdas(m, d, prefix, fi.cls, fi)
        self._index_fbody(m, node.body, prefix, fi)

    def _index_fbody(self, m, body, prefix, fi):
        for st in body:
            if isinstance(st, (ast.FunctionDef, ast.AsyncFunctionDef)):
                q = prefix + st.name
                f2 = FuncInfo(m, st, q, cls=fi.cls, parent=fi)
                self._add_func(m, f2)
                fi.nested[st.name] = f2
                self._index_inner(m, f2)
            elif isinstance(st, ast.ClassDef):
                continue
            else:
                for fld in ('body', 'orelse', 'finalbody'):
                    sub = getattr(st, fld, None)
                    if isinstance(sub, list) and sub and isinstance(
                            sub[0], ast.stmt):
                        self._index_fbody(m, sub, prefix, fi)
                for h in getattr(st, 'handlers', []) or []:
                    self._index_fbody(m, h.body, prefix, fi)
                for c in getattr(st, 'cases', []) or []:
                    self._index_fbody(m, c.body, prefix, fi)
                # expressions of this statement (excluding nested stmts)
                for e in _stmt_exprs(st):
                    self._index_lambdas(m, e, prefix, fi.cls, fi)

    def _index_lambdas(self, m, node, prefix, cls, parent):
        """Find lambdas in an expression/simple statement (not inside nested lambdas)."""
        stack = [node]
        while stack:
            n = stack.pop()
            if isinstance(n, ast.Lambda):
                q = '%s<lambda>@%s' % (prefix, _lambda_key(n))
                fi = FuncInfo(m, n, q, cls=cls, parent=parent)
                self._add_func(m, fi)
                if parent is not None:
                    parent.lambdas.append(fi)
                self._index_inner(m, fi)
                continue
            if isinstance(n, (ast.FunctionDef, ast.AsyncFunctionDef,
                              ast.ClassDef)):
                continue
            stack.extend(ast.iter_child_nodes(n))

    def _resolve_base(self, c, expr):
        r = self.resolve_expr(c.module, expr)
        if r and r[0] == 'class':
            return r[1]
        if r and r[0] == 'ext':
            return r[1]
        return norm_src(expr)

    # -- resolution -------------------------------------------------------
    def get_module(self, dotted):
        return self.modules.get(dotted)

    def resolve_global(self, module, name, _depth=0):
        """Resolve a module-level name.

        Returns ('func', FuncInfo) | ('class', ClassInfo) | ('var', Module, name)
        | ('ext', dotted) | ('module', Module) | None.
        """
        if _depth > 10:
            return None
        if name in module.functions and name not in module.assigns:
            return 'func', module.functions[name]
        if name in module.classes:
            return 'class', module.classes[name]
        if name in module.assigns:
            return 'var', module, name
        if name in module.functions:
            return 'func', module.functions[name]
        if name in module.imports:
            return self.resolve_import(module.imports[name], _depth)
        return None

    def resolve_import(self, imp, _depth=0):
        if imp[0] == 'mod':
            m = self.get_module(imp[1])
            if m is not None:
                return 'module', m
            return 'ext', imp[1]
        _, mod, attr = imp
        m = self.get_module(mod)
        if m is None:
            return 'ext', '%s.%s' % (mod, attr)
        sub = self.get_module('%s.%s' % (mod, attr))
        r = self.resolve_global(m, attr, _depth + 1)
        if r is None and sub is not None:
            return 'module', sub
        return r

    def resolve_expr(self, module, expr, local_imports=None):
        """Resolve a Name / dotted Attribute expression statically."""
        if isinstance(expr, ast.Name):
            if local_imports and expr.id in local_imports:
                return self.resolve_import(local_imports[expr.id])
            return self.resolve_global(module, expr.id)
        if isinstance(expr, ast.Attribute):
            base = self.resolve_expr(module, expr.value, local_imports)
            if base is None:
                return None
            if base[0] == 'ext':
                return 'ext', '%s.%s' % (base[1], expr.attr)
            if base[0] == 'module':
                r = self.resolve_global(base[1], expr.attr)
                if r is None:
                    sub = self.get_module('%s.%s' % (base[1].name, expr.attr))
                    if sub is not None:
                        return 'module', sub
                return r
            if base[0] == 'class':
                f = self.find_method(base[1], expr.attr)
                if f is not None:
                    return 'func', f
                a = self.find_class_attr(base[1], expr.attr)
                if a is not None:
                    return 'classattr', a[0], expr.attr
                return None
        return None

    def mro(self, cls):
        """Linearised MRO restricted to package classes (C3 not needed: single inheritance chains)."""
        out, seen = [], set()

        def rec(c):
            if id(c) in seen:
                return
            seen.add(id(c))
            out.append(c)
            for b in c.bases:
                if isinstance(b, ClassInfo):
                    rec(b)

        rec(cls)
        return out

    def ext_bases(self, cls):
        r = []
        for c in self.mro(cls):
            for b in c.bases:
                if not isinstance(b, ClassInfo):
                    r.append(b)
        return r

    def find_method(self, cls, name):
        for c in self.mro(cls):
            if name in c.methods:
                return c.methods[name]
        return None

    def find_class_attr(self, cls, name):
        for c in self.mro(cls):
            if name in c.attrs:
                return c, c.attrs[name]
        return None

    def subclasses(self, cls):
        return [c for c in self.classes.values() if cls in self.mro(c)]

    def is_subclass(self, c, base):
        return base in self.mro(c)

    # -- anchors ----------------------------------------------------------
    def module(self, rel):
        m = self.by_rel.get(rel)
        if m is None:
            raise AnalysisError('anchor module %s not found' % rel)
        return m

    def func(self, rel, qualname):
        fi = self.functions.get('%s::%s' % (rel, qualname))
        if fi is None:
            fi = self._moved_func(rel, qualname)
        if fi is None and '.' not in qualname:
            # moved to a sibling module and imported back under its name
            m = self.by_rel.get(rel)
            imp = m.imports.get(qualname) if m is not None else None
            if imp and imp[0] == 'obj' and imp[2] == qualname:
                m2 = self.get_module(imp[1])
                if m2 is not None and qualname in m2.functions:
                    fi = m2.functions[qualname]
        if fi is None:
            raise AnalysisError('anchor function %s::%s not found' % (rel, qualname))
        return fi

    def _moved_func(self, rel, qualname):
        """A module-level function moved into a class of the same module as a
        (static) method, or a method moved out to module level, keeps its
        simple name: when exactly one non-nested function of the module has
        it, that is the anchor."""
        if '.' in qualname and not qualname.split('.')[-1].startswith('_'):
            return None  # public methods are looked up by class on purpose
        simple = qualname.split('.')[-1]
        if simple.startswith('__'):
            return None
        hits = [f for k, f in self.functions.items()
                if f.module.rel == rel and f.parent is None and
                not f.is_lambda and f.name == simple]
        return hits[0] if len(hits) == 1 else None

    def try_func(self, rel, qualname):
        return self.functions.get('%s::%s' % (rel, qualname))

    def cls(self, rel, qualname):
        ci = self.classes.get('%s::%s' % (rel, qualname))
        if ci is None:
            raise AnalysisError('anchor class %s::%s not found' % (rel, qualname))
        return ci

    def find_function_anywhere(self, name):
        """All top-level functions with this simple name (any module)."""
        return [m.functions[name] for m in self.modules.values()
                if name in m.functions]

    def find_class_anywhere(self, name):
        return [m.classes[name] for m in self.modules.values()
                if name in m.classes]

    def local_imports(self, fi):
        """Import table of imports executed inside a function (and its parents)."""
        if fi.local_imports is None:
            t = {}
            if fi.parent is not None:
                t.update(self.local_imports(fi.parent))
            if not fi.is_lambda:
                for n in ast.walk(fi.node):
                    if isinstance(n, (ast.Import, ast.ImportFrom)):
                        fi.module.import_table([n], t)
            fi.local_imports = t
        return fi.local_imports

    def digest(self):
        return {m.rel: m.sha256 for m in self.modules.values()}


def _lambda_key(n):
    h = hashlib.sha1(norm_src(n).encode()).hexdigest()[:8]
    return h


def _target_names(t):
    if isinstance(t, ast.Name):
        return [t.id]
    if isinstance(t, (ast.Tuple, ast.List)):
        r = []
        for e in t.elts:
            r.extend(_target_names(e))
        return r
    return []


def _stmt_exprs(st):
    """Expression children of a statement, excluding nested statement lists."""
    out = []
    for name, val in ast.iter_fields(st):
        if name in ('body', 'orelse', 'finalbody', 'handlers', 'cases'):
            continue
        if isinstance(val, ast.AST):
            out.append(val)
        elif isinstance(val, list):
            out.extend(v for v in val if isinstance(v, ast.AST))
    return out


def own_nodes(fi):
    """Walk the nodes belonging to a function itself (not nested defs/lambdas/classes)."""
    root = fi.node
    if isinstance(root, ast.Lambda):
        stack = [root.body]
    else:
        stack = list(root.body)
    while stack:
        n = stack.pop()
        yield n
        for c in ast.iter_child_nodes(n):
            if isinstance(c, (ast.FunctionDef, ast.AsyncFunctionDef,
                              ast.Lambda, ast.ClassDef)):
                # still expose defaults/decorators? they run in this scope
                if isinstance(c, ast.Lambda):
                    stack.extend(c.args.defaults)
                    stack.extend(x for x in c.args.kw_defaults if x)
                elif not isinstance(c, ast.ClassDef):
                    stack.extend(c.args.defaults)
                    stack.extend(x for x in c.args.kw_defaults if x)
                    stack.extend(c.decorator_list)
                yield c  # the def node itself (not its body)
                continue
            stack.append(c)
