"""Error-value flow helpers (D4): error checks, error-dropping sinks, predicates on XlError."""
import ast

from .model import own_nodes, norm_src, AnalysisError
from .peval import FuncV, Ext, CallV, Const, is_const
from .cfg import CFG

FUNCS_REL = 'formulas/functions/__init__.py'
# functions of functions/__init__ that look at their arguments for errors and
# raise FoundError / return the error
RAISING_CHECKS = {'raise_errors', 'convert2float', '_convert2float'}
RETURNING_CHECKS = {'get_error'}
# error -> NaN / dropped
SINK_FUNCS = {'to_number', '_to_number'}
SINK_EXT = {'numpy.nan_to_num'}

TRUE, FALSE, UNK = 'T', 'F', '?'


def _not(v):
    return {TRUE: FALSE, FALSE: TRUE}.get(v, UNK)


def _and(a, b):
    if a == FALSE or b == FALSE:
        return FALSE
    if a == TRUE and b == TRUE:
        return TRUE
    return UNK


def _or(a, b):
    if a == TRUE or b == TRUE:
        return TRUE
    if a == FALSE and b == FALSE:
        return FALSE
    return UNK


def _plain_index(sl):
    """Element-preserving subscripts: constants, plain slices, tuples of them."""
    if isinstance(sl, ast.Constant):
        return True
    if isinstance(sl, ast.Slice):
        return all(x is None or isinstance(x, ast.Constant) or (
            isinstance(x, ast.UnaryOp) and isinstance(x.operand, ast.Constant))
            for x in (sl.lower, sl.upper, sl.step))
    if isinstance(sl, ast.Tuple):
        return all(_plain_index(e) for e in sl.elts)
    if isinstance(sl, ast.Name):
        return True  # a loop index such as args[i]
    return False


class ErrFlow:
    def __init__(self, ctx):
        self.ctx, self.p, self.cg = ctx, ctx.project, ctx.cg
        self._checks = {}

    # -- which function is it -------------------------------------------------
    def callee_names(self, fi, call):
        """Simple names of package functions in functions/__init__ a call resolves to; ext names."""
        pk, ext = set(), set()
        for ed in self.cg._resolve_callee(fi, call.func, call, 'call'):
            if ed.is_ext:
                if ed.precision == 'exact':
                    ext.add(ed.dst)
            elif ed.precision == 'exact':
                pk.add(ed.dst)
        return pk, ext

    def is_check_call(self, fi, call):
        pk, _ = self.callee_names(fi, call)
        for g in pk:
            if g.module.rel == FUNCS_REL and g.parent is None and \
                    g.name in RAISING_CHECKS | RETURNING_CHECKS:
                return g.name
        return None

    # -- predicate evaluation on an XlError value -----------------------------
    def pred_on_error(self, fi, pred_node, bound=None, depth=0):
        """Truth of predicate(x) for x an XlError instance: 'T', 'F' or '?'.

        pred_node: ast expression denoting the predicate (Name, Lambda,
        partial(...) call) evaluated in the scope of fi; or an abstract value.
        """
        if depth > 4:
            return UNK
        from .peval import AV
        if isinstance(pred_node, AV):
            return self._pred_av(pred_node, {}, depth)
        if pred_node is None or (isinstance(pred_node, ast.Constant)
                                 and pred_node.value is None):
            return TRUE  # no filter: everything is kept
        if isinstance(pred_node, ast.Lambda):
            g = self.p.func_of_node.get(id(pred_node))
            return self._pred_func(g, {}, depth) if g else UNK
        if isinstance(pred_node, (ast.Name, ast.Attribute)):
            r = self.cg.resolve_name_expr(fi, pred_node)
            if r and r[0] in ('func', 'nested'):
                return self._pred_func(r[1], {}, depth)
            if r and r[0] == 'local' and bound and r[2] in bound:
                return self.pred_on_error(fi, bound[r[2]], None, depth + 1)
            if r and r[0] == 'local':
                # a local bound to a lambda in this function
                vals = [n.value for n in own_nodes(r[1])
                        if isinstance(n, ast.Assign) and len(n.targets) == 1
                        and isinstance(n.targets[0], ast.Name)
                        and n.targets[0].id == r[2]]
                if len(vals) == 1:
                    return self.pred_on_error(r[1], vals[0], bound, depth + 1)
            return UNK
        if isinstance(pred_node, ast.Call):
            # functools.partial(f, **kw)
            r = self.cg.resolve_name_expr(fi, pred_node.func) if isinstance(
                pred_node.func, (ast.Name, ast.Attribute)) else None
            if r and r[0] == 'ext' and r[1] == 'functools.partial' and \
                    pred_node.args:
                kw = {k.arg: k.value for k in pred_node.keywords if k.arg}
                f0 = pred_node.args[0]
                r0 = self.cg.resolve_name_expr(fi, f0) if isinstance(
                    f0, (ast.Name, ast.Attribute)) else None
                if r0 and r0[0] in ('func', 'nested'):
                    consts = {}
                    for k, v in kw.items():
                        if isinstance(v, ast.Constant):
                            consts[k] = v.value
                    return self._pred_func(r0[1], consts, depth)
            return UNK
        return UNK

    def _pred_av(self, av, consts, depth):
        if isinstance(av, FuncV):
            return self._pred_func(av.fi, consts, depth)
        if isinstance(av, CallV) and isinstance(av.fn, Ext) and \
                av.fn.name == 'functools.partial' and av.args:
            c = dict(consts)
            for k, v in av.kw.items():
                if is_const(v):
                    c[k] = v.v
            return self._pred_av(av.args[0], c, depth)
        if isinstance(av, Const) and av.v is None:
            return TRUE
        return UNK

    def _pred_func(self, g, consts, depth):
        """Evaluate g(x, **consts) for x an XlError; g's first param is x."""
        if not g.params:
            return UNK
        x = g.params[0]
        env = dict(consts)
        # defaults
        a = g.node.args
        defaults = dict(zip([p.arg for p in a.args][len(a.args) - len(a.defaults):],
                            a.defaults))
        for k, v in defaults.items():
            if k not in env and isinstance(v, ast.Constant):
                env[k] = v.value
        if g.is_lambda:
            return self._pe(g, g.node.body, x, env, depth)
        return self._pe_body(g, g.node.body, x, env, depth)

    def _pe_body(self, g, body, x, env, depth):
        for st in body:
            if isinstance(st, ast.Return):
                return self._pe(g, st.value, x, env, depth) if st.value else FALSE
            if isinstance(st, ast.If):
                t = self._pe(g, st.test, x, env, depth)
                if t == TRUE:
                    r = self._pe_body(g, st.body, x, env, depth)
                    if r is not None:
                        return r
                elif t == FALSE:
                    r = self._pe_body(g, st.orelse, x, env, depth)
                    if r is not None:
                        return r
                else:
                    return UNK
            elif isinstance(st, (ast.Expr, ast.Pass)):
                continue
            else:
                return UNK
        return None

    def _pe(self, g, e, x, env, depth):
        if isinstance(e, ast.Constant):
            return TRUE if e.value else FALSE
        if isinstance(e, ast.Name):
            if e.id in env:
                return TRUE if env[e.id] else FALSE
            if e.id == x:
                return TRUE  # an error token is a non-empty str
            return UNK
        if isinstance(e, ast.UnaryOp) and isinstance(e.op, ast.Not):
            return _not(self._pe(g, e.operand, x, env, depth))
        if isinstance(e, ast.BoolOp):
            vals = [self._pe(g, v, x, env, depth) for v in e.values]
            r = vals[0]
            for v in vals[1:]:
                r = _and(r, v) if isinstance(e.op, ast.And) else _or(r, v)
            return r
        if isinstance(e, ast.Compare) and len(e.ops) == 1:
            l, r, op = e.left, e.comparators[0], e.ops[0]
            if isinstance(l, ast.Name) and l.id == x:
                if isinstance(op, (ast.Is, ast.Eq)):
                    if self._is_empty_token(g, r) or (
                            isinstance(r, ast.Constant) and not isinstance(
                            r.value, str)) or (isinstance(r, ast.Constant)
                                               and r.value == ''):
                        return FALSE
                if isinstance(op, (ast.IsNot, ast.NotEq)):
                    if self._is_empty_token(g, r) or (
                            isinstance(r, ast.Constant) and r.value == ''):
                        return TRUE
            return UNK
        if isinstance(e, ast.Call):
            fn = e.func
            if isinstance(fn, ast.Name) and fn.id == 'isinstance' and \
                    len(e.args) == 2 and isinstance(e.args[0], ast.Name) and \
                    e.args[0].id == x:
                return self._isinstance_err(g, e.args[1])
            r = self.cg.resolve_name_expr(g, fn) if isinstance(
                fn, (ast.Name, ast.Attribute)) else None
            if r and r[0] in ('func', 'nested') and e.args and isinstance(
                    e.args[0], ast.Name) and e.args[0].id == x:
                consts = {}
                callee = r[1]
                for i, a in enumerate(e.args[1:], 1):
                    if isinstance(a, ast.Constant) and i < len(callee.params):
                        consts[callee.params[i]] = a.value
                for k in e.keywords:
                    if k.arg and isinstance(k.value, ast.Constant):
                        consts[k.arg] = k.value.value
                    elif k.arg and isinstance(k.value, ast.Name) and \
                            k.value.id in env:
                        consts[k.arg] = env[k.value.id]
                return self._pred_func(callee, consts, depth + 1)
            return UNK
        return UNK

    def _is_empty_token(self, g, e):
        r = self.cg.resolve_name_expr(g, e) if isinstance(
            e, (ast.Name, ast.Attribute)) else None
        return bool(r and r[0] == 'ext' and r[1] in ('schedula.EMPTY',
                                                       'schedula.NONE'))

    def _isinstance_err(self, g, tnode):
        """isinstance(XlError(), T)."""
        elts = tnode.elts if isinstance(tnode, ast.Tuple) else [tnode]
        res = FALSE
        for t in elts:
            r = self.cg.resolve_name_expr(g, t) if isinstance(
                t, (ast.Name, ast.Attribute)) else None
            v = UNK
            if r is None and isinstance(t, ast.Name):
                v = TRUE if t.id in ('str', 'object') else (
                    FALSE if t.id in ('bool', 'int', 'float', 'list', 'tuple',
                                      'dict', 'bytes', 'complex', 'set') else UNK)
            elif r and r[0] == 'ext':
                n = r[1]
                if n in ('builtins.str', 'builtins.object', 'schedula.Token',
                         'numpy.str_'):
                    v = TRUE if n != 'numpy.str_' else FALSE
                elif n in ('builtins.bool', 'builtins.int', 'builtins.float',
                           'numpy.bool_', 'numpy.ndarray', 'builtins.list',
                           'builtins.tuple', 'builtins.dict', 'numpy.generic',
                           'numpy.number', 'builtins.complex'):
                    v = FALSE
            elif r and r[0] == 'class':
                xl = self.ctx.project.cls('formulas/tokens/operand.py', 'XlError')
                if r[1] is xl:
                    v = TRUE
                elif self.p.is_subclass(r[1], xl):
                    v = UNK  # a specific subclass
                else:
                    v = FALSE
            res = _or(res, v)
        return res

    # -- derived-from closure -------------------------------------------------
    STRUCT_CALLS = {'tuple', 'list', 'zip', 'map', 'flatten', 'replace_empty',
                    'asarray', 'ravel', 'array', 'reshape', 'concatenate',
                    'sorted', 'reversed', 'iter', 'next', 'enumerate', 'filter',
                    'text2num', '_text2num', 'chain', 'copy', 'view', 'tolist',
                    'astype', 'set', 'dict', 'items', 'values', 'get', 'pop',
                    'clean_values', 'to_number', 'partial', '_convert_args',
                    'atleast_2d', 'atleast_1d', 'squeeze', 'transpose', 'float',
                    'int', 'str', 'bool', 'floor', 'matrix', 'A1', 'nan_to_num'}

    def _struct_names(self, v, d):
        """Names (known in d) that flow *structurally* into the value of v:
        through containers, slicing and value-preserving helpers, not through
        arbitrary function calls."""
        out = set()
        stack = [v]
        while stack:
            n = stack.pop()
            if isinstance(n, ast.Name):
                if n.id in d:
                    out |= d[n.id]
                continue
            if isinstance(n, ast.Call):
                f = n.func
                nm = f.id if isinstance(f, ast.Name) else (
                    f.attr if isinstance(f, ast.Attribute) else None)
                if nm in self.STRUCT_CALLS:
                    stack.extend(n.args)
                    stack.extend(k.value for k in n.keywords)
                    if isinstance(f, ast.Attribute):
                        stack.append(f.value)
                continue
            if isinstance(n, ast.Lambda):
                continue
            if isinstance(n, ast.Subscript) and not _plain_index(n.slice):
                # boolean-mask / fancy indexing keeps only *some* elements: a
                # check on the result does not cover the elements filtered out
                continue
            stack.extend(ast.iter_child_nodes(n))
        return out

    def derived(self, fi, structural=False):
        """name -> set of parameter names it may derive from (flow-insensitive).

        structural=True: only value-preserving derivations (see _struct_names).
        """
        d = {p: {p} for p in fi.all_params}
        changed = True
        assigns = []
        for n in own_nodes(fi):
            if isinstance(n, ast.Assign):
                for t in n.targets:
                    assigns.append((t, n.value))
            elif isinstance(n, ast.AugAssign):
                assigns.append((n.target, n.value))
            elif isinstance(n, (ast.For, ast.comprehension)):
                assigns.append((n.target, n.iter))
            elif isinstance(n, ast.NamedExpr):
                assigns.append((n.target, n.value))
            elif isinstance(n, ast.withitem) and n.optional_vars is not None:
                assigns.append((n.optional_vars, n.context_expr))
            elif isinstance(n, ast.Call) and isinstance(
                    n.func, ast.Attribute) and n.func.attr in (
                    'append', 'extend', 'add', 'update', 'insert',
                    'appendleft', 'setdefault') and n.args:
                base = n.func.value
                while isinstance(base, (ast.Subscript, ast.Attribute)):
                    base = base.value
                if isinstance(base, ast.Name):
                    for a in n.args:
                        assigns.append((base, a))
        filtered = set()
        if structural:
            # a name that is (re)bound to a filtered view of something loses
            # its coverage: a check on it no longer covers what was filtered out
            for t, v in assigns:
                if isinstance(v, ast.Subscript) and not _plain_index(v.slice):
                    for tn in ast.walk(t):
                        if isinstance(tn, ast.Name):
                            filtered.add(tn.id)
        while changed:
            changed = False
            for t, v in assigns:
                if structural:
                    src = self._struct_names(v, d)
                    if any(isinstance(tn, ast.Name) and tn.id in filtered
                           for tn in ast.walk(t)):
                        src = set()
                else:
                    src = set()
                    for nm in ast.walk(v):
                        if isinstance(nm, ast.Name) and nm.id in d:
                            src |= d[nm.id]
                for tn in ast.walk(t):
                    if isinstance(tn, ast.Name):
                        cur = d.setdefault(tn.id, set())
                        if not src <= cur:
                            cur |= src
                            changed = True
        return d

    def sources(self, fi, expr, derived, structural=False):
        if structural:
            return self._struct_names(expr, derived)
        s = set()
        for nm in ast.walk(expr):
            if isinstance(nm, ast.Name) and nm.id in derived:
                s |= derived[nm.id]
        return s

    # -- which parameters a function error-checks (anywhere) ------------------
    def checked_params(self, fi, _stack=()):
        """Parameter names of fi whose value is error-checked on some path
        (raise_errors/get_error/convert2float, isinstance(., XlError), or a
        callee that checks the corresponding parameter)."""
        if fi.fq in self._checks:
            return self._checks[fi.fq]
        if fi.fq in _stack:
            return set()
        der = self.derived(fi, structural=True)
        out = set()
        for n in own_nodes(fi):
            if isinstance(n, ast.Call):
                name = self.is_check_call(fi, n)
                if name:
                    for a in list(n.args) + [k.value for k in n.keywords]:
                        out |= self.sources(fi, a, der, True)
                    continue
                if isinstance(n.func, ast.Name) and n.func.id == 'isinstance' \
                        and len(n.args) == 2:
                    if self._isinstance_err(fi, n.args[1]) == TRUE and \
                            self._names_xlerror(fi, n.args[1]):
                        out |= self.sources(fi, n.args[0], der, True)
                    continue
                pk, _ = self.callee_names(fi, n)
                for g in pk:
                    sub = self.checked_params(g, _stack + (fi.fq,))
                    if not sub:
                        continue
                    m = self.ctx.effects._bind_args(
                        g, n, self.ctx.effects._bound_self(fi, n, g))
                    for prm in sub:
                        for a in m.get(prm, []):
                            e = a[1] if isinstance(a, tuple) else a
                            out |= self.sources(fi, e, der, True)
        # map(f, x) / np.vectorize: callables applied element-wise
        for n in own_nodes(fi):
            if isinstance(n, ast.Call) and isinstance(n.func, ast.Name) and \
                    n.func.id == 'map' and len(n.args) >= 2:
                r = self.cg.resolve_name_expr(fi, n.args[0]) if isinstance(
                    n.args[0], (ast.Name, ast.Attribute)) else None
                if r and r[0] in ('func', 'nested'):
                    g = r[1]
                    sub = self.checked_params(g, _stack + (fi.fq,))
                    if g.params and g.params[0] in sub:
                        for a in n.args[1:]:
                            out |= self.sources(fi, a, der, True)
        out &= set(fi.all_params)
        self._checks[fi.fq] = out
        return out

    def _names_xlerror(self, fi, tnode):
        elts = tnode.elts if isinstance(tnode, ast.Tuple) else [tnode]
        xl = self.ctx.project.cls('formulas/tokens/operand.py', 'XlError')
        for t in elts:
            r = self.cg.resolve_name_expr(fi, t) if isinstance(
                t, (ast.Name, ast.Attribute)) else None
            if r and r[0] == 'class' and r[1] is xl:
                return True
        return False
