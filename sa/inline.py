"""A second view of the package: private helpers inlined at their call sites.

Extracting part of a function into a private helper is the commonest
behaviour-preserving edit, and a rule that reads "the construct in f" stops
seeing it.  This module rewrites the parsed (canonicalised) modules so that a
statement-level call of a private helper of the same module

    return _h(a, b)        x = _h(a, b)        _h(a, b)        x, y = _h(a)
    return self._h(a)      x = self._h(a)      self._h(a)

is replaced by the helper's body (parameters bound to the arguments, its
locals renamed, its `return e` turned into the assignment / return the call
site asks for).  The helper definitions stay.  The result is an equivalent
program; the checks run a rule on it only when the rule reports a violation
or cannot decide on the program as written (see cli.Ctx.soft).
"""
import ast
import copy

MAX_BODY = 250


def _private(name):
    return name.startswith('_') and not name.startswith('__')


def _contains(node, types):
    """any node of the given types in `node`, not looking into nested
    function bodies when asked about `return`"""
    if types is ast.Return or types == (ast.Return,):
        work = [node]
        while work:
            n = work.pop()
            if isinstance(n, ast.Return):
                return True
            for c in ast.iter_child_nodes(n):
                if not isinstance(c, (ast.FunctionDef, ast.AsyncFunctionDef,
                                      ast.Lambda, ast.ClassDef)):
                    work.append(c)
        return False
    return any(isinstance(n, types) for n in ast.walk(node))


def _terminates(stmts):
    if not stmts:
        return False
    last = stmts[-1]
    if isinstance(last, (ast.Return, ast.Raise)):
        return True
    if isinstance(last, ast.If) and last.orelse:
        return _terminates(last.body) and _terminates(last.orelse)
    return False


def _returns_only_in_ifs(stmts):
    """Every `return` sits at statement level or inside if/else arms (not in a
    loop, try or with): the shape the rewriting below can handle."""
    for st in stmts:
        if isinstance(st, (ast.Return, ast.FunctionDef)):
            continue
        if isinstance(st, ast.If):
            if not _returns_only_in_ifs(st.body) or \
                    not _returns_only_in_ifs(st.orelse):
                return False
        elif _contains(st, ast.Return):
            return False
    return True


def eligible(fn, tail=False):
    """tail: for a call in `return h(...)` position the body is spliced in as
    it is, so its returns may sit anywhere."""
    a = fn.args
    if a.vararg or a.kwarg or a.kwonlyargs or a.posonlyargs:
        return False
    decs = [d for d in fn.decorator_list]
    if any(not (isinstance(d, ast.Name) and d.id == 'staticmethod')
           for d in decs):
        return False
    body = fn.body
    if body and isinstance(body[0], ast.Expr) and isinstance(
            body[0].value, ast.Constant) and isinstance(
            body[0].value.value, str):
        body = body[1:]
    n_stmts = sum(1 for n in ast.walk(fn) if isinstance(n, ast.stmt))
    if not body or n_stmts > MAX_BODY:
        return False
    if _contains(fn, (ast.Yield, ast.YieldFrom, ast.Await, ast.Global,
                      ast.Nonlocal)):
        return False
    for st in body:
        if _contains(st, (ast.AsyncFunctionDef, ast.ClassDef)):
            return False
    # zero-argument super() needs the method context
    for n in ast.walk(fn):
        if isinstance(n, ast.Call) and isinstance(
                n.func, ast.Name) and n.func.id in ('super', 'locals', 'vars',
                                                    'eval', 'exec'):
            return False
    return tail or _returns_only_in_ifs(body)


def _body_of(fn):
    body = fn.body
    if body and isinstance(body[0], ast.Expr) and isinstance(
            body[0].value, ast.Constant) and isinstance(
            body[0].value.value, str):
        body = body[1:]
    return body


class _Rename(ast.NodeTransformer):
    def __init__(self, names, exprs, lambdas=None):
        self.names, self.exprs = names, exprs
        self.lambdas = lambdas or {}

    def visit_Call(self, n):
        # a parameter bound to a lambda and applied: `stop(x)` with
        # stop := `lambda t: e`  ->  e[t := x]
        if isinstance(n.func, ast.Name) and n.func.id in self.lambdas and \
                not n.keywords and not any(isinstance(a, ast.Starred)
                                           for a in n.args):
            lam = self.lambdas[n.func.id]
            ps = [a.arg for a in lam.args.args]
            if len(ps) == len(n.args) and not lam.args.vararg and \
                    not lam.args.kwarg and not lam.args.kwonlyargs:
                args = [self.visit(a) for a in n.args]
                body = copy.deepcopy(lam.body)
                return _Rename({}, dict(zip(ps, args))).visit(body)
        self.generic_visit(n)
        return n

    def _scoped(self, n):
        # names bound by a nested scope's own parameters are that scope's
        a = n.args
        own = {x.arg for x in a.posonlyargs + a.args + a.kwonlyargs}
        if a.vararg:
            own.add(a.vararg.arg)
        if a.kwarg:
            own.add(a.kwarg.arg)
        saved = self.names, self.exprs
        self.names = {k: v for k, v in self.names.items() if k not in own}
        self.exprs = {k: v for k, v in self.exprs.items() if k not in own}
        self.generic_visit(n)
        self.names, self.exprs = saved
        return n

    def visit_Lambda(self, n):
        return self._scoped(n)

    def visit_FunctionDef(self, n):
        if n.name in self.names:
            n.name = self.names[n.name]
        return self._scoped(n)

    def visit_Name(self, n):
        if n.id in self.exprs and isinstance(n.ctx, ast.Load):
            return copy.deepcopy(self.exprs[n.id])
        if n.id in self.names:
            return ast.copy_location(ast.Name(id=self.names[n.id], ctx=n.ctx),
                                     n)
        return n


def _rewrite_returns(stmts, make):
    """Statement list with every `return e` replaced by make(e); code after a
    return is dropped, code after an `if` that returns in one arm moves into
    the arm that falls through."""
    out = []
    for i, st in enumerate(stmts):
        if isinstance(st, ast.Return):
            out.extend(make(st.value, st))
            return out, True
        if isinstance(st, ast.FunctionDef):
            out.append(st)
            continue
        if isinstance(st, ast.If) and (_contains(st, ast.Return)):
            rest = stmts[i + 1:]
            b, bt = _rewrite_returns(
                st.body + ([] if _terminates(st.body) else rest), make)
            o, ot = _rewrite_returns(
                (st.orelse + ([] if (st.orelse and _terminates(st.orelse))
                              else rest)), make)
            new = ast.copy_location(ast.If(test=st.test, body=b or [
                ast.copy_location(ast.Pass(), st)], orelse=o), st)
            out.append(new)
            return out, bt and ot
        out.append(st)
        if isinstance(st, ast.Raise):
            return out, True
    return out, False


def expand(call_stmt, call, fn, recv, suffix, caller_names):
    """Statements replacing `call_stmt`, or None."""
    params = [a.arg for a in fn.args.args]
    is_static = any(isinstance(d, ast.Name) and d.id == 'staticmethod'
                    for d in fn.decorator_list)
    args = list(call.args)
    if any(isinstance(a, ast.Starred) for a in args) or any(
            k.arg is None for k in call.keywords):
        return None
    if recv is not None and not is_static:
        args = [recv] + args
    bound = dict(zip(params, args))
    if len(args) > len(params):
        return None
    for k in call.keywords:
        if k.arg not in params or k.arg in bound:
            return None
        bound[k.arg] = k.value
    defaults = dict(zip(params[len(params) - len(fn.args.defaults):],
                        fn.args.defaults))
    for p_ in params:
        if p_ not in bound:
            if p_ not in defaults:
                return None
            bound[p_] = defaults[p_]
    body = copy.deepcopy(_body_of(fn))
    stored = {n.id for st in body for n in ast.walk(st)
              if isinstance(n, ast.Name) and isinstance(
                  n.ctx, (ast.Store, ast.Del))}
    stored |= {st.name for st in body if isinstance(st, ast.FunctionDef)}
    loads = {}
    for st in body:
        for n in ast.walk(st):
            if isinstance(n, ast.Name) and isinstance(n.ctx, ast.Load):
                loads[n.id] = loads.get(n.id, 0) + 1
    pre, exprs, names = [], {}, {}
    tail = isinstance(call_stmt, ast.Return)
    arg_names = {a.id for a in bound.values() if isinstance(a, ast.Name)}
    lambdas = {}
    for p_ in params:
        a = bound[p_]
        if isinstance(a, ast.Lambda) and p_ not in stored:
            uses = [n for st in body for n in ast.walk(st)
                    if isinstance(n, ast.Name) and n.id == p_]
            called = [n for st in body for n in ast.walk(st)
                      if isinstance(n, ast.Call) and isinstance(
                          n.func, ast.Name) and n.func.id == p_]
            if uses and len(uses) == len(called):
                lambdas[p_] = a
    for p_ in params:
        if p_ in lambdas:
            continue
        a = bound[p_]
        simple = isinstance(a, (ast.Name, ast.Constant)) or (
            isinstance(a, ast.Attribute) and isinstance(a.value, ast.Name))
        if isinstance(a, ast.Name) and a.id == p_:
            continue          # same name on both sides: nothing to bind
        if isinstance(a, ast.Name) and tail and p_ in stored:
            # `return h(x)`: the caller's x is dead afterwards, so the
            # helper's parameter may simply *be* x, re-bound or not
            names[p_] = a.id
            continue
        if p_ in stored or not (simple or loads.get(p_, 0) <= 1):
            new = '%s__%s' % (p_, suffix)
            names[p_] = new
            pre.append(ast.copy_location(ast.Assign(
                targets=[ast.Name(id=new, ctx=ast.Store())],
                value=copy.deepcopy(a)), call_stmt))
        else:
            exprs[p_] = a
    for v in stored:
        if v in params:
            continue
        # the helper's own locals keep their names unless they would clobber
        # something of the caller that is still needed: after a tail call
        # only the names passed in matter
        # a helper local that the call statement assigns under the same name
        # (`a, b = h(x)` with `return a, b`) simply becomes the caller's
        keep = {n.id for t in getattr(call_stmt, 'targets', [])
                for n in ast.walk(t) if isinstance(n, ast.Name)}
        clash = v in arg_names if tail else (
            (caller_names is None or v in caller_names) and v not in keep)
        if clash:
            names[v] = '%s__%s' % (v, suffix)
    body = [_Rename(names, exprs, lambdas).visit(st) for st in body]

    if isinstance(call_stmt, ast.Return):
        new = list(body)
        if not _terminates(new):
            new.append(ast.copy_location(ast.Return(value=None), call_stmt))
    elif isinstance(call_stmt, ast.Assign):
        def make(e, st):
            return [ast.copy_location(ast.Assign(
                targets=copy.deepcopy(call_stmt.targets),
                value=e if e is not None else ast.Constant(value=None)), st)]
        new, _t = _rewrite_returns(body, make)
        if not _t:
            new.extend(make(None, call_stmt))
    else:
        def make(e, st):
            if e is None or isinstance(e, (ast.Name, ast.Constant)):
                return [ast.copy_location(ast.Pass(), st)]
            return [ast.copy_location(ast.Expr(value=e), st)]
        new, _t = _rewrite_returns(body, make)
    out = pre + new
    for st in out:
        ast.fix_missing_locations(st)
    return out or [ast.copy_location(ast.Pass(), call_stmt)]


def _established():
    """Private definitions recorded for the pinned tree (spec/anchors.json):
    the rules may name these, so they stay what they are; only helpers that
    are *new* relative to that record are merged back into their callers."""
    import json
    import os
    path = os.path.join(os.path.dirname(os.path.dirname(
        os.path.abspath(__file__))), 'spec', 'anchors.json')
    try:
        with open(path) as f:
            rec = json.load(f)['definitions']
    except Exception:
        return None
    return {(rel, q) for rel, ds in rec.items() for k, q, _fp in ds
            if k == 'func'}


def _imported_helpers(rel, tree, trees, est, tail):
    """New private module-level helpers of sibling modules that this module
    imports by name (`from . import _h`, `from .mod import _h`)."""
    def dotted(r):
        parts = r[:-3].split('/')
        if parts[-1] == '__init__':
            parts = parts[:-1]
        return parts
    by_name = {'.'.join(dotted(r)): r for r in trees}
    me = dotted(rel)
    pkg = me if rel.endswith('__init__.py') else me[:-1]
    out = {}
    for n in ast.walk(tree):
        if not isinstance(n, ast.ImportFrom):
            continue
        base = pkg[:len(pkg) - (n.level - 1)] if n.level else []
        mod = '.'.join(base + (n.module.split('.') if n.module else []))
        r2 = by_name.get(mod)
        if r2 is None or r2 == rel:
            continue
        for a in n.names:
            if a.asname not in (None, a.name) or not _private(a.name):
                continue
            for st in trees[r2].body:
                if isinstance(st, ast.FunctionDef) and st.name == a.name \
                        and (r2, st.name) not in est and eligible(st, tail):
                    out[('', a.name)] = st
    return out


class _SplitTuples(ast.NodeTransformer):
    """`a, b = h(x), y` -> `a = h(x)`; `b = y` when no value mentions a target
    assigned before it (the canonicaliser does the same later): a helper call
    written as one element of a tuple becomes a statement-level call."""

    def visit_Assign(self, n):
        if len(n.targets) == 1 and isinstance(
                n.targets[0], (ast.Tuple, ast.List)) and isinstance(
                n.value, (ast.Tuple, ast.List)) and len(
                n.targets[0].elts) == len(n.value.elts) and not any(
                isinstance(e, ast.Starred)
                for e in n.targets[0].elts + n.value.elts):
            ts, vs = n.targets[0].elts, n.value.elts
            if all(isinstance(t, ast.Name) for t in ts) and not any(
                    isinstance(x, ast.Name) and x.id in {t.id for t in ts[:j]}
                    for j, v in enumerate(vs) for x in ast.walk(v)):
                out = []
                for t, v in zip(ts, vs):
                    a = ast.copy_location(ast.Assign(targets=[t], value=v), n)
                    a.end_lineno = getattr(n, 'end_lineno', n.lineno)
                    out.append(a)
                return out
        return n


def inline_modules(trees):
    """trees: rel -> canonicalised ast.Module, rewritten in place.  Returns the
    number of call sites expanded."""
    n_done = 0
    est = _established()
    if est is None:
        return 0
    for tree in trees.values():
        _SplitTuples().visit(tree)
    for rel, tree in trees.items():
        helpers = {}          # ('', name) / (class, name) -> FunctionDef
        for st in tree.body:
            if isinstance(st, ast.FunctionDef) and _private(st.name) and \
                    (rel, st.name) not in est and eligible(st, tail=True):
                helpers[('', st.name)] = st
            elif isinstance(st, ast.ClassDef):
                for s2 in st.body:
                    if isinstance(s2, ast.FunctionDef) and _private(
                            s2.name) and (rel, '%s.%s' % (
                                st.name, s2.name)) not in est and eligible(
                            s2, tail=True):
                        helpers[(st.name, s2.name)] = s2
        for k, v in _imported_helpers(rel, tree, trees, est, True).items():
            helpers.setdefault(k, v)
        if not helpers:
            continue
        shadow = {n.id for n in ast.walk(tree) if isinstance(n, ast.Name)
                  and isinstance(n.ctx, (ast.Store, ast.Del))}
        counter = [0]

        def target_of(call, cls, selfn):
            f = call.func
            if isinstance(f, ast.Name) and ('', f.id) in helpers and \
                    f.id not in shadow:
                return helpers[('', f.id)], None
            if isinstance(f, ast.Attribute) and isinstance(
                    f.value, ast.Name) and cls is not None:
                if f.value.id == selfn and (cls, f.attr) in helpers:
                    return helpers[(cls, f.attr)], f.value
                if f.value.id == cls and (cls, f.attr) in helpers and any(
                        isinstance(d, ast.Name) and d.id == 'staticmethod'
                        for d in helpers[(cls, f.attr)].decorator_list):
                    return helpers[(cls, f.attr)], None
            return None, None

        def process(fn, cls, depth=0):
            selfn = fn.args.args[0].arg if (cls and fn.args.args) else None
            changed = False
            fn_names = {n.id for n in ast.walk(fn) if isinstance(n, ast.Name)} \
                | {a.arg for a in ast.walk(fn) if isinstance(a, ast.arg)}
            for holder in ast.walk(fn):
                if holder is not fn and isinstance(
                        holder, (ast.FunctionDef, ast.Lambda, ast.ClassDef)):
                    continue
                for fld in ('body', 'orelse', 'finalbody'):
                    stmts = getattr(holder, fld, None)
                    if not (isinstance(stmts, list) and stmts and isinstance(
                            stmts[0], ast.stmt)):
                        continue
                    i = 0
                    while i < len(stmts):
                        st = stmts[i]
                        call = None
                        if isinstance(st, (ast.Return, ast.Expr)) and \
                                isinstance(st.value, ast.Call):
                            call = st.value
                        elif isinstance(st, ast.Assign) and len(
                                st.targets) == 1 and isinstance(
                                st.value, ast.Call):
                            call = st.value
                        if call is not None and target_of(
                                call, cls, selfn)[0] is None and isinstance(
                                call.func, (ast.Name, ast.Attribute)):
                            # `x = f(h(..), ..)`: the helper call becomes a
                            # statement of its own in front (the arguments
                            # before it are plain names or constants, so the
                            # order of evaluation is kept)
                            for ai, a in enumerate(call.args):
                                if not isinstance(a, (ast.Name, ast.Constant,
                                                      ast.Call)):
                                    break
                                if isinstance(a, ast.Call):
                                    h2, _r2 = target_of(a, cls, selfn)
                                    if h2 is not None and h2 is not fn and \
                                            eligible(h2) and _expr_form(
                                                h2) is None:
                                        counter[0] += 1
                                        tmp = '_h%d' % counter[0]
                                        pre_ = ast.copy_location(ast.Assign(
                                            targets=[ast.Name(
                                                id=tmp, ctx=ast.Store())],
                                            value=a), st)
                                        ast.fix_missing_locations(pre_)
                                        call.args[ai] = ast.copy_location(
                                            ast.Name(id=tmp, ctx=ast.Load()),
                                            a)
                                        stmts.insert(i, pre_)
                                        st, call = pre_, a
                                    break
                        if call is not None:
                            h, recv = target_of(call, cls, selfn)
                            if h is not None and h is not fn and (
                                    isinstance(st, ast.Return) or
                                    eligible(h)):
                                counter[0] += 1
                                new = expand(st, call, h, recv,
                                             'i%d' % counter[0], fn_names)
                                if new is not None:
                                    stmts[i:i + 1] = new
                                    changed = True
                                    i += len(new)
                                    continue
                        i += 1
            return changed

        funcs = []
        for st in tree.body:
            if isinstance(st, ast.FunctionDef):
                funcs.append((st, None))
            elif isinstance(st, ast.ClassDef):
                for s2 in st.body:
                    if isinstance(s2, ast.FunctionDef):
                        funcs.append((s2, st.name))
        # helpers are expanded from their *original* bodies: two rounds let a
        # helper that calls a helper be followed one level down
        originals = {k: copy.deepcopy(v) for k, v in helpers.items()}
        for _round in range(2):
            for fn, cls in funcs:
                before = counter[0]
                process(fn, cls)
                n_done += counter[0] - before
            helpers.update(originals)
    n_done += inline_predicates(trees, est)
    # a helper that is no longer referenced anywhere has been merged into its
    # callers completely: its definition goes, so that rules which scan
    # every function do not judge a fragment without its context
    names = {}
    for rel, tree in trees.items():
        for st in tree.body:
            if isinstance(st, ast.FunctionDef) and _private(st.name):
                names.setdefault(st.name, []).append((tree.body, st))
            elif isinstance(st, ast.ClassDef):
                for s2 in st.body:
                    if isinstance(s2, ast.FunctionDef) and _private(s2.name):
                        names.setdefault(s2.name, []).append((st.body, s2))
    used = set()
    for tree in trees.values():
        for n in ast.walk(tree):
            if isinstance(n, ast.Name) and isinstance(n.ctx, ast.Load):
                used.add(n.id)
            elif isinstance(n, ast.Attribute):
                used.add(n.attr)
            elif isinstance(n, ast.alias):
                used.add(n.name)
            elif isinstance(n, ast.Constant) and isinstance(n.value, str) \
                    and n.value.isidentifier():
                used.add(n.value)      # getattr(obj, '_name')
    for name, defs in names.items():
        if name in used or name in ALWAYS_KEEP:
            continue
        if any(q.split('.')[-1] == name for _rel, q in est):
            continue
        for body, st in defs:
            if eligible(st, tail=True) and st in body and len(body) > 1:
                body.remove(st)
    # spliced statements carry the line numbers of where they came from;
    # rules compare positions, so number the statements in document order
    for tree in trees.values():
        _renumber(tree)
    return n_done


def _renumber(tree):
    counter = [0]

    def visit(node):
        if isinstance(node, ast.stmt):
            counter[0] += 1
            line = counter[0]
            node.lineno = line
            node.end_lineno = line
            for k, v in ast.iter_fields(node):
                vals = v if isinstance(v, list) else [v]
                for x in vals:
                    if isinstance(x, ast.stmt):
                        continue
                    if isinstance(x, ast.AST):
                        for y in ast.walk(x):
                            if isinstance(y, ast.stmt):
                                continue
                            if hasattr(y, 'lineno') or isinstance(
                                    y, (ast.expr, ast.arg, ast.keyword,
                                        ast.ExceptHandler)):
                                try:
                                    y.lineno = line
                                    y.end_lineno = line
                                except AttributeError:
                                    pass
        for k, v in ast.iter_fields(node):
            vals = v if isinstance(v, list) else [v]
            for x in vals:
                if isinstance(x, ast.stmt) or isinstance(
                        x, ast.ExceptHandler):
                    if isinstance(x, ast.ExceptHandler):
                        counter[0] += 1
                        x.lineno = x.end_lineno = counter[0]
                        if x.type is not None:
                            for y in ast.walk(x.type):
                                y.lineno = y.end_lineno = counter[0]
                    visit(x)
            # statements nested in expressions (lambda bodies have none)
        if isinstance(node, (ast.FunctionDef, ast.ClassDef)):
            node.end_lineno = counter[0]
        elif isinstance(node, ast.stmt) and hasattr(node, 'body'):
            node.end_lineno = counter[0]

    for st in tree.body:
        visit(st)



# -- predicate helpers: calls inside expressions ---------------------------------
def _expr_form(fn, keep_lead=False):
    """The helper's result as one expression over its parameters, when its
    body is `x = e` bindings, `if c: return e` guards and a final `return e`;
    None otherwise."""
    body = [st for st in _body_of(fn)
            if not isinstance(st, (ast.Import, ast.ImportFrom))]
    if not body or not isinstance(body[-1], ast.Return) or \
            body[-1].value is None:
        return None
    expr = copy.deepcopy(body[-1].value)
    # leading plain assignments can stay statements in front of an `if`
    lead = 0
    while keep_lead and lead < len(body) - 1 and isinstance(
            body[lead], ast.Assign) and len(body[lead].targets) == 1 and \
            isinstance(body[lead].targets[0], ast.Name):
        lead += 1
    pre = [copy.deepcopy(st) for st in body[:lead]]
    for st in reversed(body[lead:-1]):
        if isinstance(st, ast.If) and not st.orelse and len(
                st.body) == 1 and isinstance(st.body[0], ast.Return) and \
                st.body[0].value is not None:
            expr = ast.IfExp(test=copy.deepcopy(st.test),
                             body=copy.deepcopy(st.body[0].value),
                             orelse=expr)
        elif isinstance(st, ast.Assign) and len(st.targets) == 1 and \
                isinstance(st.targets[0], ast.Name) and not _contains(
                    st.value, (ast.Call,)) or (
                isinstance(st, ast.Assign) and len(st.targets) == 1 and
                isinstance(st.targets[0], ast.Name) and isinstance(
                    st.value, (ast.Subscript, ast.Attribute, ast.Name))):
            expr = _Rename({}, {st.targets[0].id: st.value}).visit(expr)
        else:
            return None
    return (expr, pre) if keep_lead else expr


def _bool_simplify(e):
    """`True if a else b` -> `a or b` and friends (for boolean contexts)."""
    if isinstance(e, ast.IfExp):
        t = e.test
        b, o = _bool_simplify(e.body), _bool_simplify(e.orelse)

        def neg(x):
            if isinstance(x, ast.UnaryOp) and isinstance(x.op, ast.Not):
                return x.operand
            return ast.UnaryOp(op=ast.Not(), operand=x)

        def const(x, v):
            return isinstance(x, ast.Constant) and x.value is v
        if const(b, True):
            return ast.BoolOp(op=ast.Or(), values=[t, o])
        if const(b, False):
            return ast.BoolOp(op=ast.And(), values=[neg(t), o])
        if const(o, False):
            return ast.BoolOp(op=ast.And(), values=[t, b])
        if const(o, True):
            return ast.BoolOp(op=ast.Or(), values=[neg(t), b])
        return ast.IfExp(test=t, body=b, orelse=o)
    return e


def _flatten_bool(e):
    for n in ast.walk(e):
        if isinstance(n, ast.BoolOp):
            vals = []
            for v in n.values:
                if isinstance(v, ast.BoolOp) and type(v.op) is type(n.op):
                    vals.extend(v.values)
                else:
                    vals.append(v)
            n.values = vals
    return e


def inline_predicates(trees, est):
    """Expand calls of new private expression-form helpers that occur inside
    the test of an if / while / conditional expression."""
    n_done = 0
    for rel, tree in trees.items():
        helpers = {}
        for st in tree.body:
            if isinstance(st, ast.FunctionDef) and _private(st.name) and \
                    (rel, st.name) not in est and eligible(st):
                helpers[('', st.name)] = st
            elif isinstance(st, ast.ClassDef):
                for s2 in st.body:
                    if isinstance(s2, ast.FunctionDef) and _private(
                            s2.name) and (rel, '%s.%s' % (
                                st.name, s2.name)) not in est and eligible(s2):
                        helpers[(st.name, s2.name)] = s2
        for k, v in _imported_helpers(rel, tree, trees, est, False).items():
            helpers.setdefault(k, v)
        forms, forms_pre = {}, {}
        for k, fn in helpers.items():
            e = _expr_form(fn)
            if e is not None:
                forms[k] = (fn, e)
                ep = _expr_form(fn, keep_lead=True)
                if ep is not None:
                    forms_pre[k] = ep
        if not forms:
            continue

        class T(ast.NodeTransformer):
            def __init__(self, cls, selfn, stmt_mode=False):
                self.cls, self.selfn, self.n = cls, selfn, 0
                self.imports = []
                self.stmt_mode, self.pre = stmt_mode, []
                self.boolean = True

            def visit_Call(self, call):
                self.generic_visit(call)
                f = call.func
                key = recv = None
                if isinstance(f, ast.Name) and ('', f.id) in forms:
                    key = ('', f.id)
                elif isinstance(f, ast.Attribute) and isinstance(
                        f.value, ast.Name) and self.cls and (
                        self.cls, f.attr) in forms and f.value.id in (
                        self.selfn, self.cls):
                    key, recv = (self.cls, f.attr), f.value
                elif isinstance(f, ast.Attribute) and isinstance(
                        f.value, (ast.Name, ast.Subscript, ast.Attribute)):
                    # `<object>._pred(..)`: a new private method defined in
                    # exactly one class of the module
                    ks = [k for k in forms if k[1] == f.attr and k[0]]
                    if len(ks) == 1:
                        key, recv = ks[0], f.value
                if key is None or call.keywords or any(
                        isinstance(a, ast.Starred) for a in call.args):
                    return call
                fn, expr = forms[key]
                params = [a.arg for a in fn.args.args]
                static = any(isinstance(d, ast.Name) and d.id == 'staticmethod'
                             for d in fn.decorator_list)
                args = list(call.args)
                if recv is not None and not static:
                    args = [recv] + args
                if len(args) != len(params) or not all(isinstance(
                        a, (ast.Name, ast.Constant, ast.Attribute,
                            ast.Subscript)) for a in args):
                    return call
                self.n += 1
                self.imports += [copy.deepcopy(st) for st in _body_of(fn)
                                 if isinstance(st, (ast.Import,
                                                    ast.ImportFrom))]
                if self.stmt_mode and key in forms_pre and forms_pre[key][1]:
                    expr, pre = forms_pre[key]
                    # the helper's leading locals get call-site unique names
                    ren = {st.targets[0].id: '%s__p%d' % (
                        st.targets[0].id, id(call) % 9973) for st in pre}
                    rn = _Rename(ren, dict(zip(params, args)))
                    self.pre += [rn.visit(copy.deepcopy(st)) for st in pre]
                    new = rn.visit(copy.deepcopy(expr))
                    return ast.copy_location(
                        _flatten_bool(_bool_simplify(new)), call)
                new = _Rename({}, dict(zip(params, args))).visit(
                    copy.deepcopy(expr))
                if not self.boolean:
                    return ast.copy_location(new, call)
                return ast.copy_location(
                    _flatten_bool(_bool_simplify(new)), call)

        def tests_of(fn_node):
            for n in ast.walk(fn_node):
                if isinstance(n, (ast.If, ast.While, ast.IfExp)):
                    yield n, 'test'
                elif isinstance(n, ast.comprehension):
                    yield n, 'ifs'
                    yield n, 'iter'
                elif isinstance(n, ast.For):
                    yield n, 'iter'

        for st in tree.body:
            items = [(st, None)] if isinstance(st, ast.FunctionDef) else [
                (s2, st.name) for s2 in st.body
                if isinstance(s2, ast.FunctionDef)] if isinstance(
                st, ast.ClassDef) else []
            for fn, cls in items:
                selfn = fn.args.args[0].arg if (cls and fn.args.args) else None
                t = T(cls, selfn)
                # `if` statements first: the predicate's leading assignments
                # become statements in front of the `if`
                for holder in ast.walk(fn):
                    for fld in ('body', 'orelse', 'finalbody'):
                        stmts = getattr(holder, fld, None)
                        if not (isinstance(stmts, list) and stmts and
                                isinstance(stmts[0], ast.stmt)):
                            continue
                        i = 0
                        while i < len(stmts):
                            st = stmts[i]
                            if isinstance(st, ast.If):
                                ts = T(cls, selfn, stmt_mode=True)
                                st.test = _flatten_bool(ts.visit(st.test))
                                if ts.n:
                                    for p_ in ts.pre:
                                        ast.copy_location(p_, st)
                                    stmts[i:i] = ts.pre
                                    i += len(ts.pre)
                                    t.n += ts.n
                                    t.imports += ts.imports
                            i += 1
                for node, fld in tests_of(fn):
                    if fld == 'test':
                        node.test = _flatten_bool(t.visit(node.test))
                    elif fld == 'iter':
                        # the table a loop runs over, returned by a helper
                        t.boolean = False
                        node.iter = t.visit(node.iter)
                        t.boolean = True
                    else:
                        node.ifs = [t.visit(x) for x in node.ifs]
                n_done += t.n
                if t.imports:
                    # what the predicates imported locally is imported by the
                    # function that now contains their text
                    doc = 1 if (fn.body and isinstance(
                        fn.body[0], ast.Expr) and isinstance(
                        fn.body[0].value, ast.Constant)) else 0
                    fn.body[doc:doc] = t.imports
    return n_done


# looked up by the interpreter, not by name in the source
ALWAYS_KEEP = {'_repr_html_', '_repr_pretty_', '_missing_', '_generate_next_value_'}
