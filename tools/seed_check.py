#!/usr/bin/env python3
"""Run property checks on a scratch copy of /repo/formulas with a seeded patch applied.

  seed_check.py <seed-id|all> [PROP ...]     (never touches /repo)
"""
import json
import os
import shutil
import subprocess
import sys

HERE = os.path.dirname(os.path.dirname(os.path.abspath(__file__)))
sys.path.insert(0, HERE)
from sa.selftest import make_copy, run_check  # noqa

PROPS = ['C01', 'C02', 'C03', 'C04', 'C05', 'C06', 'C07', 'C08', 'C09', 'C10',
         'C11', 'C13', 'C14', 'C15', 'C17', 'C18', 'C19', 'C20']


def run(seed, props, base='seeded'):
    tmp, st = make_copy('/repo', [])
    try:
        p = subprocess.run(['patch', '-p1', '-s', '-i', os.path.join(
            HERE, base, seed, 'patch.diff')], cwd=tmp, capture_output=True,
            text=True)
        if p.returncode:
            return {'error': p.stdout + p.stderr}
        out = {}
        for prop in props:
            code, findings, err = run_check(prop, tmp)
            new = [(f['rule'], f['key']) for f in findings if not f['known']]
            if code:
                out[prop] = {'exit': code, 'new': new, 'err': err[-200:]}
        return out
    finally:
        shutil.rmtree(tmp, ignore_errors=True)


def main():
    seed = sys.argv[1]
    props = [a for a in sys.argv[2:]] or PROPS
    sdir = os.path.join(HERE, 'seeded')
    seeds = sorted(d for d in os.listdir(sdir) if os.path.isfile(
        os.path.join(sdir, d, 'patch.diff'))) if seed == 'all' else [seed]
    import concurrent.futures
    with concurrent.futures.ThreadPoolExecutor(max_workers=6) as ex:
        for s, r in zip(seeds, ex.map(lambda s: run(s, props), seeds)):
            if not r:
                print(s, 'MISSED')
            for k, v in r.items():
                if k == 'error':
                    print(s, 'ERROR', v[:200])
                else:
                    print(s, k, v['exit'], [x[0] + ' :: ' + x[1].split('::', 1)[-1]
                                            for x in v['new']][:3], v['err'][:120])


if __name__ == '__main__':
    main()
