#!/usr/bin/env python3
"""(Re)write seeded/<id>/meta.json from the confirmation record, the notes and a
fresh run of every claimed check on a scratch copy with the patch applied.

  seed_meta.py [seed-id ...]      (default: every seed directory)
"""
import json
import os
import re
import sys

HERE = os.path.dirname(os.path.dirname(os.path.abspath(__file__)))
sys.path.insert(0, HERE)
sys.path.insert(0, os.path.join(HERE, 'tools'))
import seed_check  # noqa

PROPS = {}
with open(os.path.join(HERE, 'properties.jsonl')) as f:
    for line in f:
        d = json.loads(line)
        PROPS[d['id']] = d.get('title', '')


def needs(notes):
    """Text of the notes section that says what the change needs to manifest."""
    parts = re.split(r'^#+\s*', notes, flags=re.M)
    for p in parts:
        head, _, body = p.partition('\n')
        if re.search(r'need|manifest|trigger', head, re.I) and body.strip():
            return ' '.join(body.split())[:1500]
    m = re.search(r'(?:needed|manifest)[^\n]*\n(.{40,1200}?)(?:\n\n|\Z)', notes,
                  re.I | re.S)
    return ' '.join(m.group(1).split()) if m else ''


def main():
    sdir = os.path.join(HERE, 'seeded')
    ids = sys.argv[1:] or sorted(d for d in os.listdir(sdir) if os.path.isfile(
        os.path.join(sdir, d, 'patch.diff')))
    first = {'caught': {}, 'exit2': {}, 'missed': []}
    for name in ('_first_run_round2.json', '_first_run_round3.json',
                 '_first_run_round4.json', '_first_run_round5.json',
                 '_first_run_round6.json', '_first_run_round7.json'):
        fr = os.path.join(sdir, name)
        if os.path.exists(fr):
            d = json.load(open(fr))
            first['caught'].update(d.get('caught', {}))
            first['exit2'].update(d.get('exit2', {}))
            first['missed'] += d.get('missed', [])
    for sid in ids:
        d = os.path.join(sdir, sid)
        prop = re.search(r'C\d\d', sid).group(0)
        meta_path = os.path.join(d, 'meta.json')
        old = json.load(open(meta_path)) if os.path.exists(meta_path) else {}
        conf = old.get('confirmed')
        cpath = os.path.join(sdir, '_confirm', sid + '.json')
        if os.path.exists(cpath):
            try:
                c = json.load(open(cpath))
                conf = {
                    'how': 'tools/seed_tools.py confirm: fresh git worktree of '
                           '/repo under /tmp; demo.py exits 0 on the unchanged '
                           'tree and non-zero with patch.diff applied; package '
                           'compiles; full pytest suite with the patch fails '
                           'only the 3 always_fail tests of BASELINE.json; '
                           'worktree removed afterwards',
                    'demo_clean_exit': c.get('demo_clean'),
                    'demo_patched_exit': c.get('demo_patched'),
                    'suite_failed_with_patch': c.get('suite_failed'),
                    'suite_tail': c.get('suite_tail'),
                    'confirmed': c.get('confirmed')}
            except ValueError:
                pass
        notes = ''
        if os.path.exists(os.path.join(d, 'notes.md')):
            notes = open(os.path.join(d, 'notes.md')).read()
        res = seed_check.run(sid, seed_check.PROPS)
        det = [{'check': k, 'exit': v['exit'],
                'rules': sorted({r for r, _k in v['new']}),
                **({'analysis_error': v['err'].strip()[-160:]}
                   if v['exit'] == 2 else {})}
               for k, v in sorted(res.items()) if k != 'error']
        meta = {
            'id': sid, 'property': prop, 'property_title': PROPS.get(prop, ''),
            'round': 7 if sid.startswith('r7-') else 6 if sid.startswith('r6-') else 5 if sid.startswith('r5-') else 4 if sid.startswith('r4-') else (
                3 if sid.startswith('r3-') else (
                    2 if sid.startswith('r2-') else 1)),
            'source': 'fresh sub-agent given only the property text and a '
                      'scratch worktree of /repo (nothing from /verif)',
            'base_commit': old.get('base_commit', '7f36add' if sid.startswith(
                ('r6-', 'r7-')) else '8a43883' if sid.startswith('r5-') else '9b5cc53'),
            'note': ('the demonstration was confirmed on /repo at the base '
                     'commit; /repo has since gained the fix commits 8a43883 '
                     '(RANDBETWEEN), 347f48b (lower-case error literals) and '
                     '7f36add (sh.SELF of compiled sub-dispatchers) and 2be0bc2 '
                     '(digits of the base in BIN2DEC/OCT2DEC/HEX2DEC); the '
                     'patches still apply and the checks are run on the '
                     'current tree (r2-C13-B and r4-C07-A were re-expressed '
                     'on the repaired functions, patch.orig.diff kept)'),
            'needs_to_manifest': needs(notes) or old.get('needs_to_manifest', ''),
            'confirmed': conf,
            'checks_run': 'every claimed property check (quick tier) on a '
                          'scratch copy of /repo/formulas with the patch '
                          'applied (tools/seed_check.py)',
            'first_run': old.get('first_run'),
            'detected_by': det,
            'detected': any(x['exit'] == 1 for x in det),
        }
        if sid in first.get('caught', {}):
            meta['first_run'] = 'caught: ' + first['caught'][sid]
        elif sid in first.get('exit2', {}):
            meta['first_run'] = 'cannot decide (exit 2): ' + first['exit2'][sid]
        elif sid in first.get('missed', []):
            meta['first_run'] = 'missed'
        with open(meta_path, 'w') as f:
            json.dump(meta, f, indent=1)
        print(sid, 'detected' if meta['detected'] else (
            'exit2' if det else 'MISSED'), [x['check'] for x in det])


if __name__ == '__main__':
    main()
