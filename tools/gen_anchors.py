#!/usr/bin/env python3
"""Write spec/anchors.json: shape fingerprints of the private definitions of
/repo's current tree (see sa/anchors.py).  Run after a change of the model's
canonicalisation or when /repo moves to a new pinned commit."""
import json
import os
import subprocess
import sys

HERE = os.path.dirname(os.path.dirname(os.path.abspath(__file__)))
sys.path.insert(0, HERE)
from sa.model import Project  # noqa
from sa import anchors  # noqa

repo = os.environ.get('VERIF_REPO', '/repo')
if os.path.exists(anchors.TABLE):
    os.unlink(anchors.TABLE)
p = Project(repo)
tab, _private = anchors.table_of({m.rel: m.tree for m in p.modules.values()})
try:
    head = subprocess.run(['git', '-C', repo, 'rev-parse', '--short', 'HEAD'],
                          capture_output=True, text=True).stdout.strip()
except Exception:
    head = ''
import ast  # noqa
names = {}
for m in p.modules.values():
    ns = set()
    for st in m.tree.body:
        for n in ast.walk(st) if isinstance(st, (ast.Assign, ast.AugAssign,
                                                 ast.AnnAssign)) else []:
            if isinstance(n, ast.Name) and isinstance(n.ctx, ast.Store):
                ns.add(n.id)
    names[m.rel] = sorted(ns)
with open(anchors.TABLE, 'w') as f:
    json.dump({'commit': head, 'definitions': tab, 'module_names': names}, f,
              indent=0, sort_keys=True)
print('%d definitions in %d modules' % (sum(len(v) for v in tab.values()),
                                         len(tab)))
