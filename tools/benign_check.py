#!/usr/bin/env python3
"""Run every check on a scratch copy with a behaviour-preserving refactoring
applied (benign/<id>/patch.diff): any VIOLATION is a false alarm of the
checker, any exit 2 a rule that could not follow the rewrite.

  benign_check.py [id ...]     (default: all)
"""
import json
import os
import sys

HERE = os.path.dirname(os.path.dirname(os.path.abspath(__file__)))
sys.path.insert(0, HERE)
sys.path.insert(0, os.path.join(HERE, 'tools'))
import seed_check  # noqa


def main():
    bdir = os.path.join(HERE, 'benign')
    ids = sys.argv[1:] or sorted(d for d in os.listdir(bdir) if os.path.isfile(
        os.path.join(bdir, d, 'patch.diff')))
    import concurrent.futures
    out = {}
    with concurrent.futures.ThreadPoolExecutor(max_workers=4) as ex:
        for bid, r in zip(ids, ex.map(lambda b: seed_check.run(
                b, seed_check.PROPS, base='benign'), ids)):
            out[bid] = r
            if not r:
                print(bid, 'silent')
            for k, v in r.items():
                if k == 'error':
                    print(bid, 'PATCH-ERROR', v[:200])
                else:
                    print(bid, k, 'FALSE-ALARM' if v['exit'] == 1 else
                          'CANNOT-DECIDE', [x[0] + ' :: ' + x[1].split('::', 1)[-1]
                                            for x in v['new']][:3], v['err'][:160])
    return out


if __name__ == '__main__':
    main()
