#!/usr/bin/env python3
"""Print the markdown tables of DESIGN.md section 12 from seeded/*/meta.json."""
import glob
import json
import os

HERE = os.path.dirname(os.path.dirname(os.path.abspath(__file__)))

WHAT = {
    'C01-A': 'sign-run folding cancels only one `--` pair (wrong sign for runs of >= 4 minus signs)',
    'C01-B': '`^` made right-associative through an associativity table',
    'C02-A': 'untyped lru_cache on the comparison input parser (1, 1.0, TRUE share a slot)',
    'C02-B': 'replace_empty fills blanks in place (the cell\'s cached array is rewritten)',
    'C03-A': 'sheet-extent cache keyed by sheet title instead of worksheet object',
    'C03-B': 'array-formula coverage test compares string row bounds lexicographically',
    'C04-A': 'module-level memo of sheet ids keyed before the external-link table is applied',
    'C04-B': 'closed-form _index2col off by one at column 702 (ZZ)',
    'C05-A': 'size-based "aligned operands" fast path bypasses numpy broadcasting',
    'C05-B': 'Array.collapse slices instead of np.resize (1-D over-sized results on the >= 32-argument path)',
    'C06-A': 'set difference no longer splits later areas against pieces already emitted (duplicates)',
    'C06-B': 'union swaps its operands when the right one has more value blocks',
    'C07-A': 'inverse_references guard rewritten (names over formula cells lose the inverse link)',
    'C07-B': 'RangesAssembler.__getstate__ drops indices/missing (copies lose blank-cell publication)',
    'C08-A': 'compile pops inv-data from node dicts shared with the model',
    'C08-B': 'compile memoised on (frozenset(inputs), frozenset(outputs))',
    'C09-A': 'from_dict pre-evaluates references on set(refs) instead of the nodes added',
    'C09-B': '#REF! placeholders registered as constants (second export differs from the first)',
    'C10-A': 'cut node chosen by any(map(check, <set>)) - hash order decides which cell is cut',
    'C10-B': 'Johnson blocking map hoisted out of the per-component loop',
    'C10-C': '_check_cycles assigns the cut inputs of a node instead of adding to them (extra change of the C10 agent)',
    'C11-A': 'SUMPRODUCT checks errors only after blank-paired columns were filtered out',
    'C11-B': 'criterion parser lets TokenError (a BaseError) escape for texts containing #',
    'C13-A': 'NOW/TODAY read the clock through a sliding 0.25 s module-level cache',
    'C13-B': 'defined names with volatile formulas are evaluated at load time and constant-folded',
    'C14-A': 'broad `except Exception` around add_book/add_sheet narrowed',
    'C14-B': 'Function.compile strips dotted prefixes until a registered name is found',
    'C15-A': 'sheet-extent cache keyed by sheet title (same as C03-A, found independently)',
    'C15-B': 'snapshot of self.references taken before add_book opens the workbook',
    'C17-A': 'ExcelModel.__deepcopy__ shares the loaded workbooks with the copy',
    'C17-B': 'XlError.__init__ changes the module schedula records, so ERR_CIRCULAR pickles by value',
    'C18-A': 'Number.compile converts with ast.literal_eval (leading zeros -> SyntaxError)',
    'C18-B': 'adjacent-operand guard of Parenthesis.ast narrowed from Operand to Range',
    'C19-A': 'wildcard translation through fnmatch (character classes)',
    'C19-B': 'untyped lru_cache on the criterion parser (1.0/TRUE, 0.0/FALSE)',
    'C20-A': 'integer-only _int2date misses the 400-year correction (29 Feb of 2000, 2400, ...)',
    'C20-B': 'sign-bit test of _x2dec uses > instead of >=',
    'r2-C01-A': 'Function.set_expr drops trailing empty arguments from the text (COUNTA(1,,) and COUNTA(1) share a node)',
    'r2-C01-B': 'unary-sign context test forgets that a String operand precedes ("(" - 1)',
    'r2-C02-A': 'replace_empty writes the fill value into a view of the operand array',
    'r2-C02-B': 'numpy fast path for + - * / maps 0/0 to #NUM! and overflow to #DIV/0!',
    'r2-C03-A': 'self.references read once before the work-list loop',
    'r2-C03-B': 'from_dict compiles cells against the names with a resolved range only',
    'r2-C04-A': 'module-level memo of range2parts keyed by the textual part of the context only',
    'r2-C04-B': 'external links numbered after the non-.xlsx ones were filtered out',
    'r2-C05-A': 'error precedence of the element-wise wrapper differs between scalar and array path',
    'r2-C05-B': 'IF blanks the branch it will not return, so the broadcast shape depends on the condition value',
    'r2-C06-A': 'large blank blocks come from an lru_cache and are written through a view',
    'r2-C06-B': 'set difference splits each area only against the right operand (duplicates)',
    'r2-C07-A': 'RangesAssembler keeps the last assembled values on self and patches them',
    'r2-C07-B': 'constant cells get a callable output filter that memoises by `==` (TRUE == 1)',
    'r2-C08-A': 'H/VLOOKUP parser upper-cases the lookup vector in place (copy=False)',
    'r2-C08-B': 'compile keeps defaults of cells behind a named input',
    'r2-C09-A': 'to_dict takes formulas from self.cells instead of the dispatcher',
    'r2-C09-B': 'from_dict un-escapes ="=..." text itself; the Ref fallback then parses it as a formula',
    'r2-C11-A': 'DEC2BIN/OCT/HEX ignore `places` for negative numbers, and with it an error passed there',
    'r2-C11-B': 'convert_nan returns the value when isfinite raises TypeError (None from CODE leaks)',
    'r2-C11-X': 'IRR drops text/error cells from its cash flows (candidate withdrawn by the agent)',
    'r2-C13-A': 'a repeated volatile call is registered as the bare core (`__wrapped__`), evaluated at compile time',
    'r2-C13-B': 'RANDBETWEEN rounds its bounds after the range check (result outside [bottom, top])',
    'r2-C14-A': 'per-run cache of book contexts survives the removal of a book that failed to load',
    'r2-C14-B': 'a cell that mentions an unimplemented function becomes the constant #NAME?',
    'r2-C15-A': 'self.references refreshed only when the number of books changed (not on the exception path)',
    'r2-C15-B': 'ranges contained in an already scanned one are skipped; containment compares row strings',
    'r2-C17-A': 'compile consults self.cells (empty on a copy) to release the cells behind a name',
    'r2-C17-B': '__setstate__ installs class-level default containers shared by all restored models',
    'r2-C18-A': 'Parenthesis.n_args becomes a dynamic attribute: KeyError for `(1)(2)`-like input',
    'r2-C18-B': 'int(name) if name.isdigit() else float(name): ValueError beyond 4300 digits',
    'r2-C19-A': 'type vector memoised in test_range[\'type\'] whichever of raw/num it was computed from',
    'r2-C19-B': 'MATCH parser upper-cases the caller\'s array in place',
    'r2-C20-A': 'two-digit-year pivot / serial arithmetic of DATE changed',
    'r2-C20-B': 'numeric text coerced with float() before the hex/oct/bin parser ("1E5" is 100000)',
    'r3-C02-A': 'operands that are already float skip float(); `/` relies on ZeroDivisionError, which a numpy zero does not raise',
    'r3-C02-B': 'operators fill blanks through a view of the operand array (args_parser built by a factory)',
    'r3-C05-A': 'element evaluations memoised in a dict keyed by the raw value tuple (1 / TRUE share a slot) for comparisons',
    'r3-C05-B': 'whole-array float fast path for + - * % that skips safe_eval (overflow gives inf, not #NUM!)',
    'r3-C06-A': 'Ranges.value walks the value blocks once per area: fragments of a partly covered area are not re-matched',
    'r3-C06-B': '`&` returns its areas as a list; `-` then extends the right operand in place with `+=`',
    'r3-C08-A': 'inverse_references resets inv-data before the "bypass exists" test: a second pass leaves it empty',
    'r3-C08-B': 'compile feeds the stored solution of the last calculate into its constant pre-run',
    'r3-C09-A': 'from_dict reuses the compiled function of the first cell with the same formula text (ROW(), COLUMN())',
    'r3-C09-B': 'to_dict encoder split into helpers, the scalar one under an untyped lru_cache (TRUE / 1.0)',
    'r3-C13-A': 'NOW/TODAY read a module-level clock stack that a raising calculate never pops',
    'r3-C13-B': 'defined names without inputs are evaluated at load (self.func()) and folded into the formulas using them',
    'r3-C17-A': 'XlError.__init__ added: schedula records the wrong module, ERR_CIRCULAR pickles by value',
    'r3-C17-B': 'CellWrapper.__deepcopy__ built on copy.copy: the compiled pipe is shared with the copy',
    'r3-C18-A': 'Parenthesis.n_args only in attr: KeyError for an empty array row (`={1,2;}`)',
    'r3-C18-B': 'a dangling unary sign after a separator is no longer counted: `=SUM(1,-)` parses as SUM(-1)',
    'r3-C20-A': 'WEEKDAY return types 11-17 folded like WEEKNUM: type 12 becomes zero-based',
    'r3-C20-B': 'largest serial replaced by (datetime.max - DATE_ZERO).days, one less than Excel\'s',
    'r4-C01-A': 'operator rank copied into attr before the sign is renamed: a prefix sign keeps the binary rank',
    'r4-C01-B': '`^` made right-associative through an associativity set',
    'r4-C03-A': 'self.references read once at the top of complete()',
    'r4-C03-B': 'external links numbered by len(table) + 1 after the .xlsx filter',
    'r4-C04-A': 'module-level cache of sheet locations keyed without the external-link table',
    'r4-C04-B': 'reversed corners put in order in the fast paths; the R1C1 path compares the regex text',
    'r4-C07-A': 'compile repoints the model\'s own SELF default at the compile-time sub-dispatcher (shared record)',
    'r4-C07-B': 'inverse assembler returns cells first, blocks second; outputs were registered blocks first',
    'r4-C10-A': 'cut-node candidates iterated as cycle.intersection(wrappers), unsorted',
    'r4-C10-B': '_check_cycles answers from the cut map for a node already scheduled (second cycle never opened)',
    'r4-C11-A': 'convert_nan returns the value when isfinite raises TypeError (same idea as r2-C11-B, found independently)',
    'r4-C11-B': 'DEC2BIN/OCT/HEX: places re-bound to None for negatives, dropping an error passed there',
    'r4-C14-A': 'workbooks that failed once are remembered; a missing sheet makes every later reference into the book #REF!',
    'r4-C14-B': 'broad `except Exception` around add_book/add_sheet narrowed to a tuple of four classes',
    'r4-C15-A': 'sheet-extent cache keyed by sheet title via D.get(title) (same idea as C03-A/C15-A)',
    'r4-C15-B': 'books.pop(book.upper()) now really evicts a book whose sheet is missing, names included',
    'r4-C19-A': 'AVERAGEIF averaged through the numpy path of SUMIF (FALSE counts as 0)',
    'r4-C19-B': 'VLOOKUP column index checked against len(vec) before the table is transposed',
    'r5-C02-A': 'replace_empty fills blanks in place (x[b] = empty) instead of building a new array',
    'r5-C02-B': 'U- and % registered with check_nan=False ("negation of a finite number is finite")',
    'r5-C05-A': 'the same in-place replace_empty, found independently for C05',
    'r5-C05-B': 'scalar fast path in wrap_ufunc: safe_eval(*args) when no argument is an ndarray',
    'r5-C06-A': 'Ranges.__or__ pre-fills the cached value of the union from the cached values of its operands',
    'r5-C06-B': 'Ranges.__sub__ splits each area against other.ranges only',
    'r5-C08-A': 'compile folds formatted values and pops the filters of node records shared with the model',
    'r5-C08-B': 'shrink_dsp(inputs, outputs) replaced by a reverse visit from the outputs',
    'r5-C09-A': 'per-import cache of compiled functions keyed by formula text (the host cell is folded in)',
    'r5-C09-B': 'export encoder tests isinstance(v, str) before isinstance(v, HexValue)',
    'r5-C13-A': 'safe_eval of wrap_ufunc memoised with lru_cache (call form, inside the wrapper)',
    'r5-C13-B': 'RANDBETWEEN: empty-range test moved into an input_parser, before the bounds are rounded',
    'r5-C17-A': 'ExcelModel.__deepcopy__ re-creates the dispatcher without entering it in the memo',
    'r5-C17-B': 'cells/books as class-level dicts, __getstate__ trimmed to dsp',
    'r5-C18-A': 'for-else of the filter loop replaced by a `token is None` test; a rejected token stays bound',
    'r5-C18-B': 'Number regex: [0-9] tidied to \\d (Unicode digits accepted)',
    'r5-C20-A': 'base converters memoised with an untyped lru_cache (TRUE and 1 share a slot)',
    'r5-C20-B': 'largest serial replaced by (datetime(9999,12,31) - DATE_ZERO).days, one less than Excel\'s',
    'r6-C01-A': 'one Separator(",") token hoisted out of the loop and appended n-1 times (the builder keys nodes by token object)',
    'r6-C01-B': '`^` and the unary signs made right-associative by an equal-rank tie break in the pop loop',
    'r6-C03-A': 'self.references read once at the top of complete() (third independent agent to seed this)',
    'r6-C03-B': 'bounding-box pre-check before the array-formula subtraction compares row bounds as text',
    'r6-C04-A': 'class-level memo of resolved parts in Range.process keyed without the host cell',
    'r6-C04-B': 'fast path for R[..]C[..] offsets looks at the first corner only',
    'r6-C07-A': 'sparse range assembler keeps and re-uses its blank buffer between calls',
    'r6-C07-B': 'inverse_references skips names whose cell is a formula cell',
    'r6-C10-A': 'successor map of the cell cached on the wrapper and handed to simple_cycles(copy off) through a shallow copy',
    'r6-C10-B': 'one-node components filtered out before the circuit search (self references not reported)',
    'r6-C11-A': 'outcome of the error scan memoised on the Array instance',
    'r6-C11-B': 'xfunc looks for errors after the "A" conversion (XlError is a str: turned into 0)',
    'r6-C14-A': 'complete() remembers workbooks that failed to load and answers #REF! for them without retrying',
    'r6-C14-B': 'external-link index resolved with a plain lookup: an unknown index keeps the host workbook',
    'r6-C15-A': 'self.references read once per iteration, before add_book',
    'r6-C15-B': 'the same carried set of failed workbooks, found independently for C15',
    'r6-C19-A': '.copy() dropped before the in-place upper-casing of the lookup value',
    'r6-C19-B': 'exact-match fast path compares the key with the unfiltered candidates (TRUE matches 1)',
    'r7-C02-A': '`x ** y` + complex test replaced by math.pow (ValueError of a negative base with a fractional exponent shown as #VALUE!, not #NUM!)',
    'r7-C02-B': 'text conversion _str memoised with an untyped lru_cache (TRUE and 1.0 share a slot)',
    'r7-C05-A': 'replace_empty fills blanks in place (third independent agent to seed this)',
    'r7-C05-B': 'many-argument path taken above numpy.NPY_MAXARGS instead of from 32 arguments (exactly 64 arguments fail)',
    'r7-C06-A': 'set difference collects its pieces in a list: later areas are not split against pieces already emitted',
    'r7-C06-B': 'range operator `:` hands on only the value blocks stored under the names of its operands\' areas',
    'r7-C08-A': '_rebind_self writes the sh.SELF record in place (shared with the model)',
    'r7-C08-B': 'inv-data of a range node built from single-cell outputs only',
    'r7-C09-A': 'to_dict takes the formulas from self.cells (emptied by __getstate__, never holds the #REF! placeholders)',
    'r7-C09-B': '_assemble_ranges adds each assembler as soon as it is built (hash order decides which blanks become nodes)',
    'r7-C13-A': 'incremental recalculation: nodes of the previous solution not downstream of the inputs are fed back as inputs',
    'r7-C13-B': 'int(bottom + rand*span) instead of bottom + int(rand*span) (truncation toward zero for negative bounds)',
    'r7-C17-A': 'the same in-place _rebind_self, found independently for C17',
    'r7-C17-B': '__getstate__ returns copy.copy(self.dsp) (sh.SELF inside still refers to the original)',
    'r7-C18-A': 'end-of-input loop over the operator stack replaced by one test of its top',
    'r7-C18-B': 'Number regex: [0-9] written as \\d (Unicode digits accepted) - second agent to seed this',
    'r7-C20-A': 'untyped lru_cache in front of the DEC/BIN/OCT/HEX dispatch',
    'r7-C20-B': 'the 1 microsecond guard of _n2time replaced by one ulp and a plain round',
}
FIRST1 = {
    "C01-A": "exit 2 (unrecognised rewrite)",
    "C01-B": "exit 2 (pop idiom not recognised)",
    "C02-A": "caught, wrong reason (decorated parser not recognised)",
    "C02-B": "caught by C07.nomut",
    "C03-A": "missed",
    "C03-B": "missed",
    "C04-A": "caught by C17.global",
    "C04-B": "missed",
    "C05-A": "caught by C05.funnel",
    "C05-B": "missed",
    "C06-A": "missed",
    "C06-B": "caught by C06.ops (text match; rule since made alias-based)",
    "C07-A": "missed",
    "C07-B": "missed",
    "C08-A": "caught, wrong reason (C07.names did not know .pop as a read)",
    "C08-B": "exit 2 in C08; C07.names/C13.sites fired on the renamed method",
    "C09-A": "missed",
    "C09-B": "caught by C14.ref",
    "C11-A": "missed",
    "C11-B": "caught by C11.catch",
    "C13-A": "caught by C17.global",
    "C13-B": "missed",
    "C14-A": "caught by C14.ref",
    "C14-B": "missed",
    "C15-A": "missed",
    "C15-B": "caught, wrong reason (reference branch not alias-aware)",
    "C17-A": "missed",
    "C17-B": "missed",
    "C18-A": "caught by C18.esc/num",
    "C18-B": "missed",
    "C19-A": "missed",
    "C19-B": "missed",
    "C20-A": "missed",
    "C20-B": "missed",
    "C10-A": "missed (delivered late; first run at commit 71cb809)",
    "C10-B": "missed (delivered late; first run at commit 71cb809)",
    "C10-C": "missed (delivered late; first run at commit 71cb809)"
}
WHY_MISSED = {
    'C04-B': 'value-level arithmetic of a closed-form column conversion',
    'C05-B': 'value-level behaviour of Array.collapse for one shape class',
    'C07-A': 'value-level graph predicate in inverse_references',
    'C19-A': 'value-level wildcard translation (listed as not decided for C19)',
    'C20-A': 'value-level calendar arithmetic',
    'r5-C18-B': 'value-level and outside the stated assumption (regex languages are compared on ASCII): which Unicode digits int() accepts',
    'r2-C02-B': 'the operator core is built by a new factory the registry model cannot see through: C02 answers "cannot decide" (exit 2); which error code a numpy fast path yields is value-level',
    'r2-C05-B': 'value-level: result shape depends on a condition value; C11 answers "cannot decide" on the new variadic args_parser',
    'r2-C13-B': 'value-level arithmetic of the result of RANDBETWEEN',
    'r2-C18-A': 'needs a per-object typestate of Token.attr across the shunting-yard stack (which dynamic get_* reads are preceded by a store)',
    'r2-C20-B': 'value-level: which texts float() accepts',
    'r3-C08-A': 'idempotence of a graph-building pass (what a second run leaves behind) - a history property of values',
    'r3-C18-A': 'same as r2-C18-A (found independently): typestate of Token.attr',
    'r3-C18-B': 'value-level protocol between the argument counter and the shunting-yard stack',
    'r7-C05-B': 'value-level: which argument count numpy accepts (a constant of the installed numpy)',
    'r7-C09-B': 'needs a commutativity analysis of RangesAssembler.add over a hash-ordered iteration (it reads and extends the dispatcher\'s default values); the unchanged code orders by a partial key only',
    'r7-C20-B': 'value-level floating-point guard',
    'r6-C07-B': 'value-level graph predicate in inverse_references (which names get an inverse link is decided from graph data; same family as C07-A)',
    'r4-C15-B': 'which key a book is stored under (upper-cased path) is value-level; the eviction itself is the documented behaviour of the handler',
}


def main():
    metas = {}
    for p in sorted(glob.glob(os.path.join(HERE, 'seeded', '*', 'meta.json'))):
        m = json.load(open(p))
        metas[m['id']] = m
    for rnd in (1, 2, 3, 4, 5, 6, 7):
        print('\n**Round %d**\n' % rnd)
        print('| seed | what was changed | first run | now: own check (rule) '
              '| now: other checks |')
        print('|---|---|---|---|---|')
        for sid, m in metas.items():
            if m.get('round', 1) != rnd:
                continue
            own = [x for x in m['detected_by'] if x['check'] == m['property']]
            oth = [x['check'] for x in m['detected_by']
                   if x['check'] != m['property'] and x['exit'] == 1]
            if any(x['exit'] == 1 for x in own):
                now = ', '.join(sorted({r for x in own for r in x['rules']}))
            elif own:
                now = 'exit 2 (cannot decide)'
            else:
                now = 'missed'
            if now in ('missed', 'exit 2 (cannot decide)') and sid in WHY_MISSED:
                now += ': ' + WHY_MISSED[sid]
            print('| %s | %s | %s | %s | %s |' % (
                sid, WHAT.get(sid, ''), FIRST1.get(sid) or m.get('first_run') or '-', now,
                ', '.join(oth) or '-'))
    n = len(metas)
    own_ok = sum(1 for m in metas.values() if any(
        x['check'] == m['property'] and x['exit'] == 1
        for x in m['detected_by']))
    any_ok = sum(1 for m in metas.values() if m['detected'])
    print('\n%d seeds; %d caught by the check of the property they were '
          'written against, %d by some check.' % (n, own_ok, any_ok))


if __name__ == '__main__':
    main()
