#!/usr/bin/env python3
"""Confirm a seeded change and run the checks against it.

  seed_tools.py confirm <seed_dir>      # scratch worktree: demo clean=0, demo patched=1, suite passes
  seed_tools.py detect  <seed_dir> [PROP ...]   # apply to /repo, run quick checks, undo
"""
import json
import os
import shutil
import subprocess
import sys
import tempfile

REPO = '/repo'
VERIF = os.path.dirname(os.path.dirname(os.path.abspath(__file__)))
PY = '/venv/bin/python'
KNOWN_FAIL = {'test_output_403', 'test_output_404', 'test_excel_model'}
PROPS = ['C01', 'C02', 'C03', 'C04', 'C05', 'C06', 'C07', 'C08', 'C09', 'C10',
         'C11', 'C13', 'C14', 'C15', 'C17', 'C18', 'C19', 'C20']


def sh(cmd, cwd=None, timeout=1800, env=None):
    p = subprocess.run(cmd, shell=True, cwd=cwd, capture_output=True, text=True,
                       timeout=timeout, env=env)
    return p.returncode, p.stdout + p.stderr


def confirm(seed, suite=True):
    patch = os.path.join(seed, 'patch.diff')
    demo = os.path.join(seed, 'demo.py')
    wt = tempfile.mkdtemp(prefix='confirm_wt_', dir='/tmp')
    os.rmdir(wt)
    out = {'seed': seed}
    try:
        rc, o = sh('git -C %s worktree add -q --detach %s HEAD' % (REPO, wt))
        if rc:
            return {'error': 'worktree: ' + o}
        rc, o = sh('%s %s' % (PY, demo), cwd=wt, timeout=900)
        out['demo_clean'] = rc
        out['demo_clean_tail'] = o[-300:]
        rc, o = sh('git apply %s' % patch, cwd=wt)
        if rc:
            out['apply_error'] = o[-500:]
            return out
        rc, o = sh('%s -m compileall -q formulas' % PY, cwd=wt)
        out['compiles'] = rc == 0
        rc, o = sh('%s %s' % (PY, demo), cwd=wt, timeout=900)
        out['demo_patched'] = rc
        out['demo_patched_tail'] = o[-400:]
        if suite:
            rc, o = sh('%s -m pytest -q -p no:cacheprovider --timeout=900 -n 8 '
                       '2>&1 | tail -15' % PY, cwd=wt, timeout=3000)
            failed = sorted({l.split('::')[-1].split(' ')[0] for l in
                             o.splitlines() if l.startswith('FAILED')})
            out['suite_failed'] = failed
            out['suite_tail'] = o.strip().splitlines()[-1] if o.strip() else ''
            out['suite_ok'] = set(failed) <= KNOWN_FAIL and 'passed' in o
    finally:
        sh('git -C %s worktree remove --force %s' % (REPO, wt))
        shutil.rmtree(wt, ignore_errors=True)
    out['confirmed'] = (out.get('demo_clean') == 0 and
                        out.get('demo_patched') not in (0, None) and
                        out.get('compiles') and (not suite or out.get('suite_ok')))
    return out


def detect(seed, props=None):
    patch = os.path.join(seed, 'patch.diff')
    rc, o = sh('git -C %s status --porcelain --untracked-files=no' % REPO)
    if o.strip():
        return {'error': '/repo is not clean: ' + o}
    res = {}
    try:
        rc, o = sh('git -C %s apply %s' % (REPO, patch))
        if rc:
            return {'error': 'apply: ' + o}
        for p in (props or PROPS):
            rc, o = sh('./check %s --tier quick' % p, cwd=VERIF, timeout=600)
            fired = [l for l in o.splitlines() if l.startswith(
                ('FINDING', 'ANALYSIS-ERROR'))]
            res[p] = {'exit': rc, 'lines': [l[:400] for l in fired]}
    finally:
        sh('git -C %s checkout -- .' % REPO)
    # restore evidence written on the patched tree
    for p in (props or PROPS):
        sh('./check %s --tier quick' % p, cwd=VERIF, timeout=600)
    return res


def main():
    cmd, seed = sys.argv[1], sys.argv[2].rstrip('/')
    if cmd == 'confirm':
        r = confirm(seed, suite='--no-suite' not in sys.argv)
    else:
        r = detect(seed, [a for a in sys.argv[3:] if a.startswith('C')] or None)
        fired = {p: v for p, v in r.items() if isinstance(v, dict)
                 and v.get('exit')}
        print('FIRED:', {p: v['exit'] for p, v in fired.items()})
    print(json.dumps(r, indent=1))


if __name__ == '__main__':
    main()
