#!/usr/bin/env python3
"""Print the table rule | technique | instances today | floor for every rule of every claimed check."""
import importlib
import os
import sys

HERE = os.path.dirname(os.path.dirname(os.path.abspath(__file__)))
sys.path.insert(0, HERE)
from sa.cli import Ctx  # noqa

PROPS = ['C01', 'C02', 'C03', 'C04', 'C05', 'C06', 'C07', 'C08', 'C09', 'C10',
         'C11', 'C13', 'C14', 'C15', 'C17', 'C18', 'C19', 'C20']
print('| rule | kind | what it decides | instances today | floor |')
print('|---|---|---|---|---|')
for p in PROPS:
    mod = importlib.import_module('sa.rules.%s' % p.lower())
    ctx = Ctx(os.environ.get('VERIF_REPO', '/repo'), 'quick', 0)
    for r in mod.run(ctx):
        print('| %s | %s | %s | %d | %s |' % (
            r.rule, r.template, r.text, r.instances, r.floor))
