#!/usr/bin/env python3
"""Regenerate MANIFEST.json from the rule modules present in sa/rules (run from /verif)."""
import importlib
import json
import os
import sys

HERE = os.path.dirname(os.path.dirname(os.path.abspath(__file__)))
sys.path.insert(0, HERE)

NA_FIXED = {
    'C12': 'Every clause is about returned values over each function\'s '
           'domain (sign cases, decimal rounding, which elements an '
           'aggregation skips); no table, pairing, ordering or effect in the '
           'code is necessary and sufficient for it, so no static rule in '
           'reach decides any part of it (DESIGN.md section 6).',
    'C16': 'The property is about where each value lands in an openpyxl sheet '
           'and in the written file (joint iteration order of two third-party '
           'containers); nothing structural in write() constrains it beyond a '
           'frozen-fragment match (DESIGN.md section 6).',
}

TECH = {
    'C01': 'table/relation extraction (precedence order, arity, pop relation), '
           'regex-AST language analysis, writer/reader symmetry on ast, '
           'loss-free derivation of the rendered text from the argument tokens, '
           'per-iteration freshness of tokens appended in loops',
    'C02': 'registry partial evaluation + AST operator-table agreement, '
           'dominance of error check, type-rank relation, in-place-write '
           'effect analysis on the operator cores and helpers',
    'C03': 'order-determinism dataflow (hash-ordered choice escape) and '
           'positional-protocol sibling agreement, snapshot-freshness '
           'dataflow on the CFG (exception edges included), cache-key '
           'dependence, numeric row-bound comparison',
    'C04': 'regex-AST group/consumer exhaustiveness, sibling agreement of fast '
           'paths, constant-table agreement, enumerate-before-filter '
           'derivation of external-link indices, cache-key dependence, corner '
           'pairing of the parts a fast path reads',
    'C05': 'must-pass-through on evaluation paths (followed into helpers that '
           'are handed the evaluator), sibling agreement of reshape helpers, '
           'in-place-write effect analysis',
    'C06': 'operator-table agreement, lattice-direction and inclusive-bound '
           'belief consistency, loop-carried dependence of the set-difference '
           'split set, global/memoised-result write effects, who-may-write '
           'on the cached value of a reference set, all-blocks dependence of '
           'operator results',
    'C07': 'interprocedural alias/effect analysis (in-place writes to '
           'parameters), cache-reset must-pass-through, sibling agreement, '
           'dominance of the sh.SELF re-binding over every use of a '
           'sub-dispatcher',
    'C08': 'dominator (must-precede) rules on the two compile functions, '
           'in-place-write effect analysis on everything a compiled function '
           'runs, dominance of the sh.SELF re-binding over every use of a '
           'sub-dispatcher, unfiltered inverse-output record',
    'C09': 'writer/reader tag exhaustiveness and quote-escape symmetry, '
           'export reads only state that survives __getstate__, reference '
           'table identity between the two load paths, dead type tests '
           '(subclass tested where the base class already failed) from path '
           'conditions',
    'C10': 'registry table agreement (lazy set, guard positions), '
           'order-determinism of cut-node choice (loops and short-circuit '
           'reducers), per-component definition of the search state, '
           'accumulate-not-overwrite on the cut map, ownership of a graph '
           'consumed without copy, unfiltered component work-list',
    'C11': 'registry wrapper-chain analysis, exception-escape analysis, '
           'check-before-use (error-dropping sinks), must-use dataflow of '
           'unchecked arguments on value-returning paths, guarded return '
           'leaves of the finiteness funnel, effect-freedom of the error scan',
    'C13': 'call-graph reachability of nondeterminism sources + '
           'who-may-register (effect discipline), dominance on pre-evaluation '
           'sites, whole-value registration of compiled token functions, '
           'memoisation (decorator or call form) on wrapper layers, kind '
           'inference through a registered input parser',
    'C14': 'three-site exception-class agreement, handler breadth '
           '(must-pass-through), compile-before-discard dominance in '
           'Cell.compile, cache-key dependence, path conditions of the '
           'external-link store',
    'C15': 'work-list discipline and drop-path classification on CFG, '
           'snapshot-freshness dataflow, numeric row-bound comparison, '
           'dependence of placeholder decisions on carried loop state',
    'C17': 'pickling-hook/attribute-set sibling agreement, module-level token '
           'inventory, global-write effect analysis, reads of attributes '
           'emptied by __getstate__ from copy-stable operations, shared '
           'mutable defaults installed by state-restoring hooks, class-level '
           'mutable containers left out of the pickled state, memo '
           'registration before deep-copying in hand-written __deepcopy__, '
           'shallow-copy-in-state check',
    'C18': 'interprocedural exception-escape analysis from Parser.ast, '
           'regex-language containment (token-name languages, path-sensitive, '
           'against every class-level table indexed by the name), handler '
           'coverage of int() on unbounded digit runs, store-to-break '
           'analysis of the sentinel form of for-else, end-of-input stack '
           'walk, ASCII digit classes',
    'C19': 'call-graph sibling agreement, type-guard dominance, slot-memo '
           'dependence, in-place-write effect analysis on lookup cores, '
           'comparisons only on type-filtered candidates',
    'C20': 'constant folding and table agreement against Excel limits, '
           'untyped-memo kind dependence followed through dispatcher nodes, '
           'charset check before int(text, base)',
}


def main():
    props = []
    with open(os.path.join(HERE, 'properties.jsonl')) as f:
        for line in f:
            if line.strip():
                props.append(json.loads(line))
    checks, na = [], []
    for p in props:
        pid = p['id']
        try:
            mod = importlib.import_module('sa.rules.%s' % pid.lower())
        except ImportError:
            mod = None
        if pid in NA_FIXED:
            na.append({'property_id': pid, 'reason': NA_FIXED[pid]})
            continue
        if mod is None:
            na.append({'property_id': pid, 'reason':
                       'static check not built yet (planned structural '
                       'clauses: DESIGN.md section 5)'})
            continue
        meta = mod.META
        checks.append({
            'property_id': pid,
            'quick_cmd': './check %s --tier quick' % pid,
            'thorough_cmd': './check %s --tier thorough' % pid,
            'evidence_file': '/verif/evidence/%s.json' % pid,
            'replay_cmd_template': './check %s --replay {path}' % pid,
            'engine': 'sa',
            'technique': 'static analysis: ' + TECH.get(pid, 'ast rules'),
            'level_claimed': {
                'category': 'other',
                'text': 'Static analysis of the current source, structural '
                        'clauses only: the named necessary conditions hold for '
                        'every instance the analysis enumerates; the behaviour '
                        'itself is not verified. Decides: ' + meta['decides'],
                'design_ref': 'DESIGN.md section 5, %s' % pid,
            },
            'level_note': 'Does not decide: ' + meta['not_decided'] +
                          ' Trusted base: ' + '; '.join(meta.get(
                              'trusted_base', [])),
        })
    man = {
        'version': 1,
        'setup_cmd': 'true',
        'hooks': {
            'guard': 'FORMULAS_VERIF',
            'enable': 'none needed: checks are static and never execute the '
                      'package',
            'baseline_off_cmd': 'cd /repo && /venv/bin/python -m pytest -ra -q '
                                '-p no:cacheprovider --timeout=900 '
                                '--continue-on-collection-errors',
            'source_commits': [],
            'add_only': True,
        },
        'engines': [{
            'name': 'sa', 'path': '/verif/sa',
            'serves_properties': [c['property_id'] for c in checks],
            'kind_free_text': 'repository-specific static analyser on Python '
                              'ast: source model, table partial evaluator, '
                              'call graph, statement CFG with dominators, '
                              'effect/alias/exception summaries, regex AST '
                              'model; stdlib only; never imports or runs the '
                              'package',
        }],
        'checks': checks,
        'not_applicable': na,
        'notes': 'Exit 0 held / 1 VIOLATION / 2 ANALYSIS-ERROR (cannot '
                 'decide). Genuine defects recorded in known_findings.json are '
                 'printed as KNOWN-FINDING lines. Thorough tier additionally '
                 'runs the checker self-test (mutation variants on scratch '
                 'copies) and reports it as SELFTEST-WARNING lines only.',
    }
    with open(os.path.join(HERE, 'MANIFEST.json'), 'w') as f:
        json.dump(man, f, indent=1)
    print('claimed:', [c['property_id'] for c in checks])
    print('not applicable:', [n['property_id'] for n in na])


if __name__ == '__main__':
    main()
