#!/usr/bin/env python3
"""Source of the self-test variant corpus; run to regenerate variants.json.

Each variant: id, property, kind (break|benign|repair), edits [(file, old, new)],
expect (rule id prefix that must fire for a break), clears (known-finding key a
repair must clear), may_error (an ANALYSIS-ERROR answer is acceptable).
"""
import json
import os

V = []


def add(id, prop, kind, edits, expect=None, clears=None, may_error=False):
    V.append({'id': id, 'property': prop, 'kind': kind,
              'edits': [list(e) for e in edits], 'expect': expect,
              'clears': clears, 'may_error': may_error})


F = 'formulas/functions/__init__.py'
MATH = 'formulas/functions/math.py'
DATE = 'formulas/functions/date.py'
LOGIC = 'formulas/functions/logic.py'
STAT = 'formulas/functions/stat.py'
LOOK = 'formulas/functions/look.py'
INFO = 'formulas/functions/info.py'
OPS = 'formulas/functions/operators.py'
BUILDER = 'formulas/builder.py'
EXCEL = 'formulas/excel/__init__.py'

# ---------------------------------------------------------------- C13
add('c13-randbetween-unwrapped', 'C13', 'break', [(MATH, """FUNCTIONS['RANDBETWEEN'] = {
    'extra_inputs': collections.OrderedDict([(COMPILING, False)]),
    'function': wrap_impure_func(wrap_ufunc(
        xrandbetween, input_parser=lambda *a: a,
        check_error=lambda *a: get_error(*a[::-1])
    ))
}""", """FUNCTIONS['RANDBETWEEN'] = wrap_ufunc(
    xrandbetween, input_parser=lambda *a: a,
    check_error=lambda *a: get_error(*a[::-1])
)""")], expect='C13.impure')
add('c13-new-clock-function', 'C13', 'break', [(DATE, """FUNCTIONS['YEARFRAC'] = wrap_func(xyearfrac)""",
    """FUNCTIONS['YEARFRAC'] = wrap_func(xyearfrac)


def xunixtime():
    import time
    return time.time()


FUNCTIONS['UNIXTIME'] = wrap_func(xunixtime)""")], expect='C13.impure')
add('c13-helper-reaches-clock', 'C13', 'break', [(DATE, """def xtime(hour, minute, second):
    if all(""", """def xtime(hour, minute, second):
    if hour is None:
        hour = datetime.datetime.now().hour
    if all(""")], expect='C13.impure')
add('c13-lru-cache-on-xnow', 'C13', 'break', [(DATE, """def xnow():""", """@functools.lru_cache()
def xnow():""")], expect='C13.nomemo')
add('c13-extra-input-not-flag', 'C13', 'break', [(DATE, """FUNCTIONS['NOW'] = {
    'extra_inputs': collections.OrderedDict([(COMPILING, False)]),""", """FUNCTIONS['NOW'] = {
    'extra_inputs': collections.OrderedDict(),""")], expect='C13.impure')
add('c13-wrapper-ignores-flag', 'C13', 'break', [(F, """        return sh.NONE if compiling else func(*args, **kwargs)""",
    """        return func(*args, **kwargs)""")], expect='C13.mask')
add('c13-wrapper-inverted', 'C13', 'break', [(F, """        return sh.NONE if compiling else func(*args, **kwargs)""",
    """        return func(*args, **kwargs) if compiling else sh.NONE""")], expect='C13.mask')
add('c13-extras-appended', 'C13', 'break', [(BUILDER, """kw['inputs'] = (list(_inputs) + inputs) or None""",
    """kw['inputs'] = (inputs + list(_inputs)) or None""")], expect='C13.mask')
add('c13-builder-flag-dropped', 'C13', 'break', [(BUILDER, """        inp[COMPILING] = True
""", "")], expect='C13.sites')
add('c13-builder-flag-after-eval', 'C13', 'break', [(BUILDER, """        inp[COMPILING] = True
        res, o = dsp(inp), self.get_node_id(self[-1])""", """        res, o = dsp(inp), self.get_node_id(self[-1])
        inp[COMPILING] = True""")], expect='C13.sites')
add('c13-benign-wrapper-if-stmt', 'C13', 'benign', [(F, """        return sh.NONE if compiling else func(*args, **kwargs)""",
    """        if compiling:
            return sh.NONE
        return func(*args, **kwargs)""")])
add('c13-benign-pure-function', 'C13', 'benign', [(DATE, """FUNCTIONS['YEARFRAC'] = wrap_func(xyearfrac)""",
    """FUNCTIONS['YEARFRAC'] = wrap_func(xyearfrac)


def xdays(end, start):
    return end - start


FUNCTIONS['DAYS'] = wrap_ufunc(xdays)""")])
add('c13-benign-rename-local', 'C13', 'benign', [(DATE, """    d = datetime.datetime.now()
    return xdate(d.year, d.month, d.day) + xtime(d.hour, d.minute, d.second)""",
    """    t = datetime.datetime.now()
    return xdate(t.year, t.month, t.day) + xtime(t.hour, t.minute, t.second)""")])

# ---------------------------------------------------------------- C11
add('c11-isodd-unwrapped', 'C11', 'break', [(INFO, """FUNCTIONS['ISODD'] = wrap_func(functools.partial(xiseven_odd, odd=True))""",
    """FUNCTIONS['ISODD'] = wrap_ranges_func(functools.partial(xiseven_odd, odd=True))""")], expect='C11.total')
add('c11-new-unwrapped-int', 'C11', 'break', [(MATH, """FUNCTIONS['PI'] = lambda: math.pi""",
    """FUNCTIONS['PI'] = lambda: math.pi
FUNCTIONS['TOINT'] = lambda x: int(x)""")], expect='C11.total')
add('c11-catchall-removed', 'C11', 'break', [(F, """        except BaseError as ex:
            raise ex
        except Exception:
            return np.asarray([[Error.errors['#VALUE!']]], object)
""", """        except BaseError as ex:
            raise ex
""")], expect='C11.catch')
add('c11-founderror-after-baseerror', 'C11', 'break', [(F, """        except FoundError as ex:
            return np.asarray([[ex.err]], object)
        except InvalidRangeError:
            return np.asarray([[Error.errors['#VALUE!']]], object)
        except BaseError as ex:
            raise ex
""", """        except InvalidRangeError:
            return np.asarray([[Error.errors['#VALUE!']]], object)
        except BaseError as ex:
            raise ex
        except FoundError as ex:
            return np.asarray([[ex.err]], object)
""")], expect='C11.catch')
add('c11-founderror-payload-lost', 'C11', 'break', [(F, """        except FoundError as ex:
            return np.asarray([[ex.err]], object)
        except InvalidRangeError:""", """        except FoundError as ex:
            return np.asarray([[Error.errors['#VALUE!']]], object)
        except InvalidRangeError:""")], expect='C11.catch')
add('c11-wrap-ufunc-skips-wrap-func', 'C11', 'break', [(F, """    return wrap_func(functools.update_wrapper(wrapper, func), ranges=ranges)""",
    """    return wrap_ranges_func(functools.update_wrapper(wrapper, func))""")], expect='C11.total')
add('c11-convert-nan-dropped', 'C11', 'break', [(F, """            if check_nan and not isinstance(r, (XlError, str)):
                r = convert_nan(r)
""", "")], expect='C11.finite')
add('c11-check-nan-off', 'C11', 'break', [(MATH, """FUNCTIONS['SQRT'] = wrap_ufunc(np.sqrt)""",
    """FUNCTIONS['SQRT'] = wrap_ufunc(np.sqrt, check_nan=False)""")], expect='C11.finite')
add('c11-sum-raise-errors-removed', 'C11', 'break', [(MATH, """def xsum(*args, func=np.sum):
    raise_errors(args)
""", """def xsum(*args, func=np.sum):
""")], expect='C11.errkeep.sinks')
add('c11-sumproduct-check-after-sink', 'C11', 'break', [(MATH, """    raise_errors(args)
    inp = np.asarray(args).reshape((len(args), -1))
    inp = inp[:, ~(inp == np.array(sh.EMPTY, dtype=object)).any(axis=0)]
    return np.sum(np.prod(np.nan_to_num(to_number(inp).astype(float)), axis=0))""",
    """    inp = np.asarray(args).reshape((len(args), -1))
    inp = inp[:, ~(inp == np.array(sh.EMPTY, dtype=object)).any(axis=0)]
    res = np.sum(np.prod(np.nan_to_num(to_number(inp).astype(float)), axis=0))
    raise_errors(args)
    return res""")], expect='C11.errkeep.sinks')
add('c11-and-raise-errors-removed', 'C11', 'break', [(LOGIC, """    args = (logical,) + logicals
    raise_errors(args)
""", """    args = (logical,) + logicals
""")], expect='C11.errkeep.sinks')
add('c11-mdeterm-check-removed', 'C11', 'break', [(MATH, """def xmdeterm(x, func=np.linalg.det):
    raise_errors(x)
""", """def xmdeterm(x, func=np.linalg.det):
""")], expect='C11.errkeep.sinks')
add('c11-sort-parser-check-removed', 'C11', 'break', [(STAT, """    err = get_error(values)
    if err:
        return err, k
    values = np.array""", """    values = np.array""")], expect='C11.errkeep')
add('c11-max-raise-off', 'C11', 'break', [(STAT, """FUNCTIONS['MAX'] = wrap_func(xfunc)""",
    """FUNCTIONS['MAX'] = wrap_func(functools.partial(
    xfunc, _raise=False, check=functools.partial(is_number, xl_return=False)
))""")], expect='C11.errkeep.sinks')
add('c11-abs-check-error-none', 'C11', 'break', [(MATH, """FUNCTIONS['ABS'] = wrap_ufunc(np.abs)""",
    """FUNCTIONS['ABS'] = wrap_ufunc(np.abs, check_error=lambda *a: None)""")], expect='C11.errkeep.ufunc')
add('c11-if-check-skips-condition', 'C11', 'break', [(LOGIC, """        check_error=lambda cond, *a: get_error(cond)
    ),""", """        check_error=lambda cond, *a: None
    ),""")], expect='C11.errkeep.ufunc')
add('c11-vlookup-fix-reverted', 'C11', 'break', [(LOOK, """    raise_errors(index, match_type)
""", "")], expect='C11.errkeep.ufunc')
add('c11-table-plain-dict', 'C11', 'break', [(F, """    functions = collections.defaultdict(lambda: not_implemented)""",
    """    functions = {}""")], expect='C11.table')
add('c11-repair-broadcast', 'C11', 'repair', [(BUILDER, """                NotImplementedError, RangeValueError, InvalidRangeError
            ))""", """                NotImplementedError, RangeValueError, InvalidRangeError,
                BroadcastError
            ))"""), (BUILDER, """    FormulaError, RangeValueError, InvalidRangeError, InvalidRangeName,
    AnchorRangeName""", """    FormulaError, RangeValueError, InvalidRangeError, InvalidRangeName,
    AnchorRangeName, BroadcastError""")],
    clears='formulas/functions/__init__.py::wrap_func::re-raises BroadcastError unhandled')
add('c11-repair-finite', 'C11', 'repair', [(F, """        try:
            return func(*args, **kwargs)
        except FoundError as ex:""", """        try:
            res = func(*args, **kwargs)
            if isinstance(res, float) and not np.isfinite(res):
                res = Error.errors['#NUM!']
            return res
        except FoundError as ex:""")],
    clears='formulas/functions/__init__.py::wrap_func::no non-finite funnel')
add('c11-benign-wrap-is-in-wrap-func', 'C11', 'benign', [(INFO, """FUNCTIONS['ISERROR'] = wrap_ranges_func(iserror)""",
    """FUNCTIONS['ISERROR'] = wrap_func(iserror)""")])
add('c11-benign-check-before-sink-reordered', 'C11', 'benign', [(MATH, """def xsum(*args, func=np.sum):
    raise_errors(args)
    inp = []""", """def xsum(*args, func=np.sum):
    inp = []
    raise_errors(args)""")])
add('c11-benign-get-error-instead', 'C11', 'benign', [(MATH, """def xmmult(x, y):
    raise_errors(x, y)""", """def xmmult(x, y):
    err = get_error(x, y)
    if err:
        return err""")])
add('c11-benign-new-wrapped-function', 'C11', 'benign', [(MATH, """FUNCTIONS['PI'] = lambda: math.pi""",
    """FUNCTIONS['PI'] = lambda: math.pi
FUNCTIONS['TOINT'] = wrap_ufunc(lambda x: int(x))""")])

# ---------------------------------------------------------------- C18
PARSER = 'formulas/parser.py'
OPERAND = 'formulas/tokens/operand.py'
OPERATOR = 'formulas/tokens/operator.py'
PAREN = 'formulas/tokens/parenthesis.py'
add('c18-eval-back', 'C18', 'break', [(OPERAND, """        name = self.name.upper()
        if name in ('TRUE', 'FALSE'):
            return name == 'TRUE'
        try:
            return int(name)
        except ValueError:
            return float(name)""", """        return eval(self.name.capitalize())""")], expect='C18')
add('c08-self-rebind-dropped-final', 'C08', 'break', [(EXCEL, """            wildcard=False
        )
        _rebind_self(dsp)
""", """            wildcard=False
        )
""")], expect='C08.self')
add('c08-self-rebind-dropped-preeval', 'C08', 'break', [(EXCEL, """        _rebind_self(dsp)

        res = dsp()""", """        res = dsp()""")], expect='C08.self')
add('c08-self-rebind-after-preeval', 'C08', 'break', [(EXCEL, """        _rebind_self(dsp)

        res = dsp()""", """        res = dsp()
        _rebind_self(dsp)""")], expect='C08.self')
add('c08-benign-self-rebind-inline', 'C08', 'benign', [(EXCEL, """            wildcard=False
        )
        _rebind_self(dsp)
""", """            wildcard=False
        )
        if sh.SELF in dsp.default_values:
            dsp.default_values[sh.SELF] = dict(
                dsp.default_values[sh.SELF], value=dsp
            )
""")])
add('c18-error-literal-case-reverted', 'C18', 'break', [(OPERAND, """        return self.errors[self.name.upper()]""", """        return self.errors[self.name]""")], expect='C18.esc')
add('c18-benign-error-literal-casefold-local', 'C18', 'benign', [(OPERAND, """        return self.errors[self.name.upper()]""", """        name = self.name.upper()
        return self.errors[name]""")])
add('c18-builder-raises-valueerror', 'C18', 'break', [(BUILDER, """            except IndexError:
                raise FormulaError()""", """            except IndexError:
                raise ValueError()""")], expect='C18')
add('c18-indexerror-handler-removed', 'C18', 'break', [(BUILDER, """            try:
                tokens = [self.pop() for _ in range(token.get_n_args)][::-1]
            except IndexError:
                raise FormulaError()""", """            tokens = [self.pop() for _ in range(token.get_n_args)][::-1]""")], expect='C18.arity')
add('c18-paren-raises-runtimeerror', 'C18', 'break', [(PAREN, """            if not stack or self.opens[self.name] != stack[-1].name:
                raise ParenthesesError()""", """            if not stack or self.opens[self.name] != stack[-1].name:
                raise RuntimeError('unbalanced')""")], expect='C18.esc')
add('c18-operand-adjacent-assert', 'C18', 'break', [(OPERAND, """        if tokens and isinstance(tokens[-1], Operand):
            raise TokenError()""", """        assert not (tokens and isinstance(tokens[-1], Operand))""")], expect='C18.esc')
add('c18-narrow-formulaerror-handler', 'C18', 'break', [(PARSER, """                except TokenError:
                    pass
                except FormulaError:
                    raise FormulaError(expression)""", """                except TokenError:
                    pass
                except ParenthesesError:
                    raise FormulaError(expression)""")], expect='C18.arity')
add('c18-no-filter-else-dropped', 'C18', 'break', [(PARSER, """            else:
                raise FormulaError(expression)
        Parenthesis(')')""", """            else:
                expr = expr[1:]
        Parenthesis(')')""")], expect='C18.arity')
add('c18-len-check-dropped', 'C18', 'break', [(PARSER, """        if len(builder) != 1:
            raise FormulaError(expression)
""", "")], expect='C18.arity')
add('c18-new-error-class-not-formula', 'C18', 'break', [('formulas/errors.py', """class ParenthesesError(FormulaError):""", """class ParenthesesError(BaseError):""")], expect='C18.esc')
add('c18-signrun-accepts-semicolon', 'C18', 'break', [(OPERATOR, """(?P<sum_minus>[\\+\\s\\-]+)""", """(?P<sum_minus>[\\+\\s\\-;]+)""")], expect='C18.reject')
add('c18-number-int-only', 'C18', 'break', [(OPERAND, """        try:
            return int(name)
        except ValueError:
            return float(name)""", """        return int(name)""")], expect='C18.num')
add('c18-benign-new-formulaerror-subclass', 'C18', 'benign', [('formulas/errors.py', """class FunctionError(FormulaError):""", """class ArityError(FormulaError):
    msg = 'Wrong number of arguments!'


class FunctionError(FormulaError):"""), (BUILDER, """            except IndexError:
                raise FormulaError()""", """            except IndexError:
                from .errors import ArityError
                raise ArityError()""")])
add('c18-benign-else-raises-tokenerror', 'C18', 'benign', [(PARSER, """            else:
                raise FormulaError(expression)
        Parenthesis(')')""", """            else:
                raise TokenError(expression)
        Parenthesis(')')""")])
add('c18-repair-summinus-class', 'C18', 'repair', [(OPERATOR, """(?P<sum_minus>[\\+\\s\\-]+)""", """(?P<sum_minus>[\\+ \\-]+)""")],
    clears='formulas/tokens/operator.py::OperatorToken::sum_minus class admits non-sign characters')
add('c18-repair-intersect-name', 'C18', 'repair', [(OPERATOR, """    _re = regex.compile(r'^(?P<name>\\s)\\s*')""", """    _re = regex.compile(r'^(?P<name> )\\s*')""")],
    clears='formulas/parser.py::Parser.ast::escapes KeyError from formulas/tokens/operator.py::Operator.pred via Intersect')
add('c18-repair-boundary-valueerror', 'C18', 'repair', [(BUILDER, """                self.dsp.add_function(**kw)
            else:""", """                try:
                    self.dsp.add_function(**kw)
                except ValueError:
                    raise FormulaError()
            else:"""), (BUILDER, """                    for k, v in _inputs.items():
                        if v is not sh.NONE:
                            self.dsp.add_data(k, v)""", """                    for k, v in _inputs.items():
                        if v is not sh.NONE:
                            try:
                                self.dsp.add_data(k, v)
                            except ValueError:
                                raise FormulaError()"""), (BUILDER, """                self.dsp.add_function(None, sh.bypass, [out], [n_id])""", """                try:
                    self.dsp.add_function(None, sh.bypass, [out], [n_id])
                except ValueError:
                    raise FormulaError()""")],
    clears='formulas/parser.py::Parser.ast::escapes ValueError from formulas/builder.py::AstBuilder.append')

# ---------------------------------------------------------------- C07
RANGES = 'formulas/ranges.py'
CELL = 'formulas/cell.py'
add('c07-xfilter-fix-reverted', 'C07', 'break', [(LOOK, """    b = np.array(condition, object)
    a_shp = array.shape""", """    b = np.asarray(condition, object)
    a_shp = array.shape""")], expect='C07.nomut')
add('c07-mmult-zeroes-blanks-in-place', 'C07', 'break', [(MATH, """def xmmult(x, y):
    raise_errors(x, y)
""", """def xmmult(x, y):
    raise_errors(x, y)
    x[x == ''] = 0
""")], expect='C07.nomut')
add('c07-replace-empty-in-place', 'C07', 'break', [(F, """        if obj in x:
            x = np.where(obj == x, empty, x).view(x.__class__)""", """        if obj in x:
            x[obj == x] = empty""")], expect='C07.nomut')
add('c07-sort-parser-sorts-argument', 'C07', 'break', [(STAT, """    values = np.array(tuple(flatten(
        values, lambda v: not isinstance(v, (str, bool))
    )), float)
    values.sort()""", """    values = np.asarray(values)
    values.sort()""")], expect='C07.nomut')
add('c07-helper-mutates-via-callee', 'C07', 'break', [(MATH, """def xsumproduct(*args):
    # Check all arrays are the same length
    # Excel returns #VAlUE! error if they don't match
    raise_errors(args)
""", """def _zero_blanks(a):
    a[a == ''] = 0
    return a


def xsumproduct(*args):
    # Check all arrays are the same length
    # Excel returns #VAlUE! error if they don't match
    raise_errors(args)
    args = [_zero_blanks(np.asarray(a)) for a in args]
""")], expect='C07.nomut')
add('c07-format-output-caches-on-rng', 'C07', 'break', [(CELL, """def format_output(rng, value):
    return Ranges().set_value(rng, value)""", """def format_output(rng, value):
    rng['last'] = value
    return Ranges().set_value(rng, value)""")], expect='C07.nomut')
add('c07-value-reset-dropped', 'C07', 'break', [(RANGES, """    def set_value(self, rng, value=sh.EMPTY):
        self._value = sh.NONE
""", """    def set_value(self, rng, value=sh.EMPTY):
""")], expect='C07.cache')
add('c07-args-writes-shared-values', 'C07', 'break', [(CELL, """        inputs = {
            k: hasattr(r, 'ranges') and Ranges(r.ranges) or r
            for k, r in self.func.inputs.items()
        }""", """        inputs = dict(self.func.inputs)""")], expect='C07.nomut')
add('c07-from-dict-no-inverse', 'C07', 'break', [(EXCEL, """        if assemble:
            self.assemble()
        self.inverse_references()
        return self

    def write(""", """        if assemble:
            self.assemble()
        return self

    def write(""")], expect='C07.paths')
add('c07-finish-inverse-conditional', 'C07', 'break', [(EXCEL, """        if circular:
            self.solve_circular()
        self.inverse_references()""", """        if circular:
            self.solve_circular()
            self.inverse_references()""")], expect='C07.paths')
add('c07-inv-data-key-renamed-writer', 'C07', 'break', [(CELL, """                d['inv-data'] = set(self.outputs)""", """                d['inv_data'] = set(self.outputs)""")], expect='C07.names')
add('c07-benign-copy-then-write', 'C07', 'benign', [(MATH, """def xmmult(x, y):
    raise_errors(x, y)
""", """def xmmult(x, y):
    raise_errors(x, y)
    x = np.array(x, object)
    x[x == ''] = 0
""")])
add('c07-benign-local-accumulator', 'C07', 'benign', [(MATH, """def xlcm(*args):
    return _xgcd(np.lcm.reduce, args)""", """def xlcm(*args):
    seen = []
    for a in args:
        seen.append(a)
    return _xgcd(np.lcm.reduce, tuple(seen))""")])
add('c07-benign-key-renamed-consistently', 'C07', 'benign', [(CELL, """                d['inv-data'] = set(self.outputs)""", """                d['inv-links'] = set(self.outputs)"""), (EXCEL, """                        d['inv-data'] = {out}""", """                        d['inv-links'] = {out}"""), (EXCEL, """            inp.update(nodes.get(i, {}).get('inv-data', ()))""", """            inp.update(nodes.get(i, {}).get('inv-links', ()))""")])

# ---------------------------------------------------------------- C17
TEXT = 'formulas/functions/text.py'
TOKENS = 'formulas/tokens/__init__.py'
add('c17-reduce-drops-collapse-value', 'C17', 'break', [(F, """        state = {
            '_collapse_value': self._collapse_value,
            '_default': self._default
        },""", """        state = {
            '_default': self._default
        },""")], expect='C17.array')
add('c17-deepcopy-drops-default', 'C17', 'break', [(F, """        # noinspection PyArgumentList
        obj._default = copy.deepcopy(self._default, memo)
""", "")], expect='C17.array')
add('c17-new-array-attribute-unhooked', 'C17', 'break', [(F, """def value_return(res, *args):
    res._collapse_value = Error.errors['#VALUE!']
    return res""", """def value_return(res, *args):
    res._collapse_value = Error.errors['#VALUE!']
    res._origin = 'value'
    return res"""), (F, """    _collapse_value = None

    def reshape(""", """    _collapse_value = None
    _origin = None

    def reshape(""")], expect='C17.array')
add('c17-ranges-new-attr-no-slot', 'C17', 'break', [(RANGES, """    def set_value(self, rng, value=sh.EMPTY):
        self._value = sh.NONE""", """    def set_value(self, rng, value=sh.EMPTY):
        self._value = sh.NONE
        self._dirty = True""")], expect='C17.slots')
add('c17-getstate-drops-dsp', 'C17', 'break', [(EXCEL, """        return {'dsp': self.dsp, 'cells': {}, 'books': {}}""", """        return {'cells': {}, 'books': {}}""")], expect='C17.slots')
add('c17-token-created-in-function', 'C17', 'break', [(INFO, """def xna():
    return Error.errors['#N/A']""", """def xna():
    return XlError('#N/A')""")], expect='C17.tokens')
add('c17-circular-token-in-method', 'C17', 'break', [(EXCEL, """                    dsp.set_default_value(k, ERR_CIRCULAR, dist)""", """                    dsp.set_default_value(k, XlCircular('#CIRC!'), dist)""")], expect='C17.tokens')
add('c17-getattr-reads-attr-first', 'C17', 'break', [(TOKENS, """    def __getattr__(self, item):
        if item.startswith('has_'):
            return item[4:] in self.attr""", """    def __getattr__(self, item):
        if item in self.attr:
            return self.attr[item]
        if item.startswith('has_'):
            return item[4:] in self.attr""")], expect='C17.getattr')
add('c17-getattr-returns-none', 'C17', 'break', [(TOKENS, """        return super(Token, self).__getattr__(item)""", """        return None""")], expect='C17.getattr')
add('c17-module-cache-in-core', 'C17', 'break', [(MATH, """def xgcd(*args):
    return _xgcd(np.gcd.reduce, args)""", """_gcd_cache = {}


def xgcd(*args):
    key = repr(args)
    if key not in _gcd_cache:
        _gcd_cache[key] = _xgcd(np.gcd.reduce, args)
    return _gcd_cache[key]""")], expect='C17.global')
add('c17-format-codes-not-copied', 'C17', 'break', [(TEXT, """def _format_datetime(value, codes, types):
    codes = codes.copy()
""", """def _format_datetime(value, codes, types):
""")], expect='C17.global')
add('c17-benign-new-module-token', 'C17', 'benign', [(F, """COMPILING = sh.Token('Run')""", """COMPILING = sh.Token('Run')
PENDING = sh.Token('Pending')""")])
add('c17-benign-attr-added-to-all-hooks', 'C17', 'benign', [(F, """    _collapse_value = None

    def reshape(""", """    _collapse_value = None
    _origin = None

    def reshape("""), (F, """        state = {
            '_collapse_value': self._collapse_value,""", """        state = {
            '_origin': self._origin,
            '_collapse_value': self._collapse_value,"""), (F, """        # noinspection PyArgumentList
        obj._default = copy.deepcopy(self._default, memo)
""", """        # noinspection PyArgumentList
        obj._default = copy.deepcopy(self._default, memo)
        obj._origin = self._origin
""")])
add('c17-benign-local-cache-dict', 'C17', 'benign', [(MATH, """def xgcd(*args):
    return _xgcd(np.gcd.reduce, args)""", """def xgcd(*args):
    cache = {}
    cache['r'] = _xgcd(np.gcd.reduce, args)
    return cache['r']""")])

# ---------------------------------------------------------------- C10
add('c10-if-solve-cycle-removed', 'C10', 'break', [(LOGIC, """        check_error=lambda cond, *a: get_error(cond)
    ),
    'solve_cycle': solve_cycle
}""", """        check_error=lambda cond, *a: get_error(cond)
    )
}""")], expect='C10.lazy')
add('c10-switch-gets-solve-cycle', 'C10', 'break', [(LOGIC, """        check_error=lambda first, *a: get_error(first),
    )
}""", """        check_error=lambda first, *a: get_error(first),
    ),
    'solve_cycle': solve_cycle
}""")], expect='C10.lazy')
add('c10-if-checks-all-args', 'C10', 'break', [(LOGIC, """        check_error=lambda cond, *a: get_error(cond)
    ),""", """        check_error=get_error
    ),""")], expect='C10.lazy')
add('c10-ifs-guard-odd', 'C10', 'break', [(LOGIC, """    'solve_cycle': lambda *a: not any(a[::2])""", """    'solve_cycle': lambda *a: not any(a[1::2])""")], expect='C10.lazy')
add('c10-solve-cycle-polarity', 'C10', 'break', [(LOGIC, """def solve_cycle(*args):
    return not args[0]""", """def solve_cycle(*args):
    return args[0]""")], expect='C10.lazy')
add('c10-iferror-float-parser', 'C10', 'break', [(LOGIC, """FUNCTIONS['IFERROR'] = {
    'function': wrap_ufunc(
        xiferror, input_parser=lambda *a: a, check_error=lambda *a: False
    ),""", """FUNCTIONS['IFERROR'] = {
    'function': wrap_ufunc(
        xiferror, check_error=lambda *a: False
    ),""")], expect='C10.lazy')
add('c10-err-circular-plain-string', 'C10', 'break', [(EXCEL, """ERR_CIRCULAR = XlCircular('#CIRC!')""", """ERR_CIRCULAR = '#CIRC!'""")], expect='C10.err')
add('c10-skip-nodes-not-passed', 'C10', 'break', [(EXCEL, """        cycles = list(simple_cycles(dmap.succ, skip_nodes=skip_nodes))""", """        cycles = list(simple_cycles(dmap.succ))""")], expect='C10.skip')
add('c10-check-cycles-no-skip', 'C10', 'break', [(CELL, """        dmap = {
            v: set(nbrs) - skip_nodes
            for v, nbrs in fn.dsp.dmap.succ.items()
            if v not in skip_nodes
        }""", """        dmap = {
            v: set(nbrs) for v, nbrs in fn.dsp.dmap.succ.items()
        }""")], expect='C10.skip')
add('c10-cut-node-unsorted', 'C10', 'break', [(EXCEL, """            for k in sorted(cycle.intersection(f_nodes)):
                if _check_cycles(""", """            for k in cycle.intersection(f_nodes):
                if _check_cycles(""")], expect='C10.ord')
add('c10-first-cuttable-node-returned', 'C10', 'break', [(CELL, """                if k in n and n[k](*(i in c for i in n['inputs'])):
                    cells.update(c.intersection(inputs))
                    break""", """                if k in n and n[k](*(i in c for i in n['inputs'])):
                    cells.update(set(n['inputs']).intersection(inputs))
                    break""")], expect='C10.ord')
add('c10-benign-guard-def-rewritten', 'C10', 'benign', [(LOGIC, """def solve_cycle(*args):
    return not args[0]""", """def solve_cycle(*args):
    on_cycle = args[0]
    return not on_cycle""")], may_error=True)
add('c10-benign-ifs-all-not', 'C10', 'benign', [(LOGIC, """    'solve_cycle': lambda *a: not any(a[::2])""", """    'solve_cycle': lambda *a: all(not v for v in a[::2])""")])
add('c10-benign-sorted-list', 'C10', 'benign', [(EXCEL, """            for k in sorted(cycle.intersection(f_nodes)):
                if _check_cycles(""", """            for k in sorted(list(cycle.intersection(f_nodes))):
                if _check_cycles(""")])

# ---------------------------------------------------------------- C14
add('c14-builder-drops-notimplemented', 'C14', 'break', [(BUILDER, """            raises=lambda e: not isinstance(e, (
                NotImplementedError, RangeValueError, InvalidRangeError
            ))""", """            raises=lambda e: not isinstance(e, (
                RangeValueError, InvalidRangeError
            ))""")], expect='C14.name')
add('c14-not-implemented-raises-other', 'C14', 'break', [(F, """def not_implemented(*args, **kwargs):
    raise NotImplementedError""", """def not_implemented(*args, **kwargs):
    raise FunctionError()"""), (F, """    RangeValueError, FoundError, BaseError, BroadcastError, InvalidRangeError
)""", """    RangeValueError, FoundError, BaseError, BroadcastError, InvalidRangeError,
    FunctionError
)""")], expect='C14.name')
add('c14-cellwrapper-maps-to-na', 'C14', 'break', [(CELL, """            if isinstance(ex.ex, NotImplementedError):
                return Error.errors['#NAME?']""", """            if isinstance(ex.ex, NotImplementedError):
                return Error.errors['#N/A']""")], expect='C14.name')
add('c14-cellwrapper-checks-keyerror', 'C14', 'break', [(CELL, """            if isinstance(ex.ex, NotImplementedError):""", """            if isinstance(ex.ex, KeyError):""")], expect='C14.name')
add('c14-complete-narrow-except', 'C14', 'break', [(EXCEL, """            except Exception as ex:  # Missing excel file or sheet.""", """            except FileNotFoundError as ex:  # Missing excel file or sheet.""")], expect='C14.ref')
add('c14-complete-reraises', 'C14', 'break', [(EXCEL, """                Cell(n_id, '=#REF!').compile().add(self.dsp)
                self.books.pop(book, None)
                continue""", """                self.books.pop(book, None)
                raise""")], expect='C14.ref')
add('c14-add-sheet-outside-try', 'C14', 'break', [(EXCEL, """            try:
                context = self.add_book(book)[1]
                wk, context = self.add_sheet(rng['sheet'], context)
            except Exception as ex:""", """            context = self.add_book(book)[1]
            try:
                wk, context = self.add_sheet(rng['sheet'], context)
            except Exception as ex:""")], expect='C14.ref')
add('c14-missing-name-not-ref', 'C14', 'break', [(EXCEL, """                log.warning('Missing Reference `{}`!'.format(n_id))
                Ref(n_id, '=#REF!').compile().add(self.dsp)
                continue""", """                log.warning('Missing Reference `{}`!'.format(n_id))
                continue""")], expect='C14.ref')
add('c14-missing-ref-unknown-code', 'C14', 'break', [(CELL, """            i = m and m.groupdict()['excel_id'] and '#NAME?' or '#REF!'""", """            i = m and m.groupdict()['excel_id'] and '#NAME?' or '#MISSING!'""")], expect='C14.ref')
add('c14-functions-plain-dict', 'C14', 'break', [(F, """    functions = collections.defaultdict(lambda: not_implemented)""", """    functions = {}""")], expect='C14.table')
add('c14-error-table-built-from-strings', 'C14', 'break', [('formulas/tokens/operand.py', """    errors = {str(k): k for k in (NULL, DIV, VALUE, REF, NUM, NAME, NA)}""", """    errors = {str(k): str(k) for k in (NULL, DIV, VALUE, REF, NUM, NAME, NA)}""")], expect='C14.plain')
add('c14-benign-handler-var-renamed', 'C14', 'benign', [(EXCEL, """            except Exception as ex:  # Missing excel file or sheet.
                log.warning('Error in loading `{}`:\\n{}'.format(n_id, ex))""", """            except Exception as err:  # Missing excel file or sheet.
                log.warning('Error in loading `{}`:\\n{}'.format(n_id, err))""")])
add('c14-benign-tolerate-more', 'C14', 'benign', [(BUILDER, """                NotImplementedError, RangeValueError, InvalidRangeError
            ))""", """                NotImplementedError, RangeValueError, InvalidRangeError,
                InvalidRangeName
            ))""")])

# ---------------------------------------------------------------- C02
add('c02-lt-le-swapped', 'C02', 'break', [(OPS, """    ('<=', lambda x, y: x <= y),""", """    ('<=', lambda x, y: x < y),""")], expect='C02.optable')
add('c02-minus-operands-swapped', 'C02', 'break', [(OPS, """    '-': lambda x, y: x - y,""", """    '-': lambda x, y: y - x,""")], expect='C02.optable')
add('c02-plus-is-minus', 'C02', 'break', [(OPS, """    '+': lambda x, y: x + y,""", """    '+': lambda x, y: x - y,""")], expect='C02.optable')
add('c02-div-guard-dropped', 'C02', 'break', [(OPS, """    '/': lambda x, y: (x / y) if y else Error.errors['#DIV/0!'],""", """    '/': lambda x, y: x / y,""")], expect='C02.optable')
add('c02-div-wrong-error', 'C02', 'break', [(OPS, """    '/': lambda x, y: (x / y) if y else Error.errors['#DIV/0!'],""", """    '/': lambda x, y: (x / y) if y else Error.errors['#NUM!'],""")], expect='C02.optable')
add('c02-percent-divides-by-ten', 'C02', 'break', [(OPS, """    '%': lambda x: x / 100.0,""", """    '%': lambda x: x / 10.0,""")], expect='C02.optable')
add('c02-concat-reversed', 'C02', 'break', [(OPS, """OPERATORS['&'] = wrap_ufunc(
    lambda x, y: x + y,""", """OPERATORS['&'] = wrap_ufunc(
    lambda x, y: y + x,""")], expect='C02.optable')
add('c02-logic-operators-prefix-order', 'C02', 'break', [(OPS, """    ('>=', lambda x, y: x >= y),
    ('<=', lambda x, y: x <= y),
    ('<>', lambda x, y: x != y),
    ('<', lambda x, y: x < y),
    ('>', lambda x, y: x > y),""", """    ('<', lambda x, y: x < y),
    ('>', lambda x, y: x > y),
    ('>=', lambda x, y: x >= y),
    ('<=', lambda x, y: x <= y),
    ('<>', lambda x, y: x != y),""")], expect='C02.optable')
add('c02-plus-no-error-check', 'C02', 'break', [(OPS, """numeric_wrap = functools.partial(wrap_ufunc)""", """numeric_wrap = functools.partial(wrap_ufunc, check_error=lambda *a: None)""")], expect='C02.errfirst')
add('c02-safe-eval-core-first', 'C02', 'break', [(F, """            r = check_error(*vals) or convert_noshp(func(*input_parser(*vals)))""", """            r = convert_noshp(func(*input_parser(*vals))) or check_error(*vals)""")], expect='C02.errfirst')
add('c02-get-error-last', 'C02', 'break', [(F, """    for v in flatten(vals, None, True):
        if isinstance(v, XlError):
            return v""", """    for v in reversed(list(flatten(vals, None, True))):
        if isinstance(v, XlError):
            return v""")], expect='C02.errfirst')
add('c02-rank-bool-as-number', 'C02', 'break', [(LOOK, """    if isinstance(obj, (bool, np.bool_)):
        return 2""", """    if isinstance(obj, (bool, np.bool_)):
        return 0""")], expect='C02.rank')
add('c02-rank-text-above-logical', 'C02', 'break', [(LOOK, """    elif isinstance(obj, (str, np.str_)) and not isinstance(obj, XlError):
        return 1""", """    elif isinstance(obj, (str, np.str_)) and not isinstance(obj, XlError):
        return 3""")], expect='C02.rank')
add('c02-rank-error-as-text', 'C02', 'break', [(LOOK, """    elif isinstance(obj, (str, np.str_)) and not isinstance(obj, XlError):
        return 1""", """    elif isinstance(obj, (str, np.str_)):
        return 1""")], expect='C02.rank')
add('c02-parser-rank-of-other-operand', 'C02', 'break', [(OPS, """    return (_get_type_id(x), x), (_get_type_id(y), y)""", """    return (_get_type_id(x), x), (_get_type_id(x), y)""")], expect='C02.rank')
add('c02-typeerror-unhandled', 'C02', 'break', [(F, """        except (ValueError, TypeError):
            r = Error.errors['#VALUE!']
        return r""", """        except ValueError:
            r = Error.errors['#VALUE!']
        return r""")], expect='C02.funnel')
add('c02-pow-fix-reverted', 'C02', 'break', [(OPS, """    '^': xpow,""", """    '^': lambda x, y: x ** y,""")], expect='C02.pow')
add('c02-pow-no-complex-check', 'C02', 'break', [(OPS, """    return Error.errors['#NUM!'] if isinstance(r, complex) else r""", """    return r""")], expect='C02.pow')
add('c02-benign-operator-module', 'C02', 'benign', [(OPS, """    '+': lambda x, y: x + y,""", """    '+': operator.add,"""), (OPS, """import collections
from . import""", """import collections
import operator
from . import""")])
add('c02-benign-lambda-to-def', 'C02', 'benign', [(OPS, """numeric_wrap = functools.partial(wrap_ufunc)
""", """numeric_wrap = functools.partial(wrap_ufunc)


def _times(x, y):
    return x * y
"""), (OPS, """    '*': lambda x, y: x * y,""", """    '*': _times,""")])
add('c02-benign-ranks-rescaled', 'C02', 'benign', [(LOOK, """        return 2
    elif isinstance(obj, (str, np.str_)) and not isinstance(obj, XlError):
        return 1
    return 0""", """        return 20
    elif isinstance(obj, (str, np.str_)) and not isinstance(obj, XlError):
        return 10
    return 0""")])
add('c02-benign-div-guard-rewritten', 'C02', 'benign', [(OPS, """    '/': lambda x, y: (x / y) if y else Error.errors['#DIV/0!'],""", """    '/': lambda x, y: Error.errors['#DIV/0!'] if y == 0 else x / y,""")])

# ---------------------------------------------------------------- C19
add('c19-vlookup-own-core', 'C19', 'break', [(LOOK, """FUNCTIONS['VLOOKUP'] = wrap_ufunc(
    xlookup, input_parser=lambda *a: a,""", """def xvlookup(*a):
    return xlookup(*a)


FUNCTIONS['VLOOKUP'] = wrap_ufunc(
    xvlookup, input_parser=lambda *a: a,""")], expect='C19.core')
add('c19-lookup-index-off-by-one', 'C19', 'break', [(LOOK, """        r = np.asarray(result_vec[r - 1], object).ravel()[0]""", """        r = np.asarray(result_vec[r], object).ravel()[0]""")], expect='C19.core')
add('c19-vlookup-no-transpose', 'C19', 'break', [(LOOK, """    args_parser=functools.partial(args_parser_hlookup, transpose=True),""", """    args_parser=args_parser_hlookup,""")], expect='C19.core')
add('c19-hlookup-transposes', 'C19', 'break', [(LOOK, """FUNCTIONS['HLOOKUP'] = wrap_ufunc(
    xlookup, input_parser=lambda *a: a,
    args_parser=args_parser_hlookup,""", """FUNCTIONS['HLOOKUP'] = wrap_ufunc(
    xlookup, input_parser=lambda *a: a,
    args_parser=functools.partial(args_parser_hlookup, transpose=True),""")], expect='C19.core')
add('c19-sumif-counts', 'C19', 'break', [(MATH, """FUNCTIONS['SUMIF'] = wrap_func(functools.partial(xfilter, xsum))""", """FUNCTIONS['SUMIF'] = wrap_func(functools.partial(xfilter, len))""")], expect='C19.core')
add('c19-criterion-type-guard-dropped', 'C19', 'break', [(F, """        return _get_type_id(value) == type_id and operator(value, condition)""", """        return operator(value, condition)""")], expect='C19.typed')
add('c19-criterion-compare-first', 'C19', 'break', [(F, """        return _get_type_id(value) == type_id and operator(value, condition)""", """        return operator(value, condition) and _get_type_id(value) == type_id""")], expect='C19.typed')
add('c19-match-no-type-filter', 'C19', 'break', [(LOOK, """    index = lookup_array_index[b]
    array = lookup_array[b]
""", """    index = lookup_array_index
    array = lookup_array
""")], expect='C19.typed')
add('c19-match-ascending-strict', 'C19', 'break', [(LOOK, """            if x <= val:
                r[0] = j
                return x == val and j > 1""", """            if x < val:
                r[0] = j
                return x == val and j > 1""")], expect='C19.typed')
add('c19-match-descending-nonstrict', 'C19', 'break', [(LOOK, """            if x < val:
                return True
            r[0] = j""", """            if x <= val:
                return True
            r[0] = j""")], expect='C19.typed')
add('c19-match-mode-ge', 'C19', 'break', [(LOOK, """    if match_type > 0:
        def check""", """    if match_type >= 0:
        def check""")], expect='C19.typed')
add('c19-benign-compare-flipped', 'C19', 'benign', [(LOOK, """            if x <= val:
                r[0] = j
                return x == val and j > 1""", """            if val >= x:
                r[0] = j
                return x == val and j > 1""")])
add('c19-benign-rename-mask', 'C19', 'benign', [(LOOK, """    b = lookup_value_type == lookup_array_type
    index = lookup_array_index[b]
    array = lookup_array[b]
""", """    same = lookup_value_type == lookup_array_type
    index = lookup_array_index[same]
    array = lookup_array[same]
""")])

# ---------------------------------------------------------------- C20
ENG = 'formulas/functions/eng.py'
add('c20-mask-octal-wrong', 'C20', 'break', [(ENG, """_xmask = {2: 1 << 9, 8: 1 << 29, 16: 1 << 39}""", """_xmask = {2: 1 << 9, 8: 1 << 30, 16: 1 << 39}""")], expect='C20.mask')
add('c20-xfunc-swapped', 'C20', 'break', [(ENG, """_xfunc = {2: bin, 8: oct, 16: hex}""", """_xfunc = {2: bin, 8: hex, 16: oct}""")], expect='C20.mask')
add('c20-oct2dec-base-ten', 'C20', 'break', [(ENG, """        function_id='OCT2DEC',
        function=functools.partial(_x2dec, base=8),""", """        function_id='OCT2DEC',
        function=functools.partial(_x2dec, base=10),""")], expect='C20.mask')
add('c20-dec2bin-writes-oct-node', 'C20', 'break', [(ENG, """        function=functools.partial(_dec2x, base=2),
        inputs=['DEC', 'places'],
        outputs=['BIN']""", """        function=functools.partial(_dec2x, base=2),
        inputs=['DEC', 'places'],
        outputs=['OCT']""")], expect='C20.mask')
add('c20-x2dec-default-base', 'C20', 'break', [(ENG, """def _x2dec(x, base=16):""", """def _x2dec(x, base=8):""")], expect='C20.mask')
add('c20-dec2x-range-inclusive', 'C20', 'break', [(ENG, """    if -y <= x < y:""", """    if -y <= x <= y:""")], expect='C20.mask')
add('c20-permutations-missing-dec', 'C20', 'break', [(ENG, """itertools.permutations(['HEX', 'OCT', 'BIN', 'DEC'], 2)""", """itertools.permutations(['HEX', 'OCT', 'BIN'], 2)""")], expect='C20.mask', may_error=True)
add('c20-roman-table-edit', 'C20', 'break', [(MATH, """def _xroman(form):
    form = int(form + 1)
    num, let = (1000, 500, 100, 50, 10, 5, 1), 'MDCLXVI'""", """def _xroman(form):
    form = int(form + 1)
    num, let = (1000, 500, 100, 50, 10, 5, 1), 'MDCLVXI'""")], expect='C20.roman')
add('c20-arabic-values-edit', 'C20', 'break', [(MATH, """def xarabic(text):
    num = (1000, 500, 100, 50, 10, 5, 1)""", """def xarabic(text):
    num = (1000, 500, 100, 50, 10, 4, 1)""")], expect='C20.roman')
add('c20-roman-domain-4000', 'C20', 'break', [(MATH, """    if not (0 <= num < 4000 and 0 <= form <= 4):""", """    if not (0 <= num <= 4000 and 0 <= form <= 4):""")], expect='C20.roman')
add('c20-serial-weekday-off-by-one', 'C20', 'break', [(DATE, """def xweekday(serial_number, n=1):
    n, serial_number, zero = int(n), int(serial_number), 7
    if not (0 <= serial_number <= 2958465):""", """def xweekday(serial_number, n=1):
    n, serial_number, zero = int(n), int(serial_number), 7
    if not (0 <= serial_number <= 2958466):""")], expect='C20.serial')
add('c20-int2date-upper-exclusive', 'C20', 'break', [(DATE, """    if 60 < serial_number <= 2958465:""", """    if 60 < serial_number < 2958465:""")], expect='C20.serial')
add('c20-date-zero-shifted', 'C20', 'break', [(DATE, """DATE_ZERO = datetime.datetime(1899, 12, 31)""", """DATE_ZERO = datetime.datetime(1899, 12, 30)""")], expect='C20.serial')
add('c20-leap-pivot-61', 'C20', 'break', [(DATE, """    elif serial_number == 60:
        return 1900, 2, 29""", """    elif serial_number == 61:
        return 1900, 2, 29""")], expect='C20.serial')
add('c20-xdate-no-shift', 'C20', 'break', [(DATE, """    return (datetime.datetime(*d) - DATE_ZERO).days + int(d >= (1900, 3, 1))""", """    return (datetime.datetime(*d) - DATE_ZERO).days""")], expect='C20.serial')
add('c20-weekday-mode-18', 'C20', 'break', [(DATE, """    elif 11 <= n <= 17:
        n = n - 10
    else:
        return Error.errors['#NUM!']
    return int(""", """    elif 11 <= n <= 18:
        n = n - 10
    else:
        return Error.errors['#NUM!']
    return int(""")], expect='C20.weekday')
add('c20-weekday-mode3-zero-7', 'C20', 'break', [(DATE, """    elif n == 3:
        n, zero = 2, 0""", """    elif n == 3:
        n, zero = 2, 7""")], expect='C20.weekday')
add('c20-weekday-mode11-offset', 'C20', 'break', [(DATE, """    elif 11 <= n <= 17:
        n = n - 10""", """    elif 11 <= n <= 17:
        n = n - 11""")], expect='C20.weekday')
add('c20-benign-mask-literals', 'C20', 'benign', [(ENG, """_xmask = {2: 1 << 9, 8: 1 << 29, 16: 1 << 39}""", """_xmask = {2: 512, 8: 8 ** 10 // 2, 16: 549755813888}""")])
add('c20-benign-dict-reordered', 'C20', 'benign', [(ENG, """_xfunc = {2: bin, 8: oct, 16: hex}""", """_xfunc = {16: hex, 2: bin, 8: oct}""")])
add('c20-benign-exclusive-bound', 'C20', 'benign', [(DATE, """    if 60 < serial_number <= 2958465:""", """    if 60 < serial_number < 2958466:""")], may_error=True)

# ---------------------------------------------------------------- C01
FUNCTION = 'formulas/tokens/function.py'
add('c01-percent-below-power', 'C01', 'break', [(OPERATOR, """'u-': 7, 'u+': 7, '%': 6, '^': 5,""", """'u-': 7, 'u+': 7, '%': 4, '^': 5,""")], expect='C01.prec')
add('c01-concat-same-as-plus', 'C01', 'break', [(OPERATOR, """'-': 3, '&': 2,""", """'-': 3, '&': 3,""")], expect='C01.prec')
add('c01-power-not-above-times', 'C01', 'break', [(OPERATOR, """'%': 6, '^': 5, '*': 4,""", """'%': 6, '^': 4, '*': 4,""")], expect='C01.prec')
add('c01-unary-below-power', 'C01', 'break', [(OPERATOR, """':': 8, ' ': 8, ',': 8, 'u-': 7, 'u+': 7,""", """':': 8, ' ': 8, ',': 8, 'u-': 4.5, 'u+': 4.5,""")], expect='C01.prec')
add('c01-ge-missing-key', 'C01', 'break', [(OPERATOR, """'<=': 1,
        '>=': 1, '<>': 1""", """'<=': 1,
        '<>': 1""")], expect='C01')
add('c01-percent-binary', 'C01', 'break', [(OPERATOR, """    _n_args.update({'u-': 1, 'u+': 1, '%': 1})""", """    _n_args.update({'u-': 1, 'u+': 1})""")], expect='C01.arity')
add('c01-right-assoc', 'C01', 'break', [(OPERATOR, """            if pred > stack[-1].pred:
                break""", """            if pred >= stack[-1].pred:
                break""")], expect='C01.assoc')
add('c01-pop-inverted', 'C01', 'break', [(OPERATOR, """            if pred > stack[-1].pred:
                break""", """            if pred < stack[-1].pred:
                break""")], expect='C01.assoc')
add('c01-pop-through-parenthesis', 'C01', 'break', [(OPERATOR, """        while stack and isinstance(stack[-1], Operator):
            if pred > stack[-1].pred:""", """        while stack and isinstance(stack[-1], Token):
            if pred > stack[-1].pred:""")], expect='C01.assoc', may_error=True)
add('c01-unary-after-percent', 'C01', 'break', [(OPERATOR, """            b |= isinstance(t, Operator) and t.name == '%'
""", "")], expect='C01.unary')
add('c01-unary-after-closing-paren', 'C01', 'break', [(OPERATOR, """            b = isinstance(t, Parenthesis) and t.has_end""", """            b = False""")], expect='C01.unary')
add('c01-binary-after-any-paren', 'C01', 'break', [(OPERATOR, """            b = isinstance(t, Parenthesis) and t.has_end""", """            b = isinstance(t, Parenthesis)""")], expect='C01.unary')
add('c01-separator-semicolon', 'C01', 'break', [(OPERATOR, """    _re_process = regex.compile(r'^\\s*(?P<name>,)$')""", """    _re_process = regex.compile(r'^\\s*(?P<name>[,;])$')"""), (OPERATOR, """    _re = regex.compile(r'^(\\s*,\\s*)')""", """    _re = regex.compile(r'^(\\s*[,;]\\s*)')""")], expect='C01.names')
add('c01-empty-first-arg-dropped', 'C01', 'break', [(OPERATOR, """            if isinstance(lt, Separator) or (
                    lt.get_name == '(' and not isinstance(lt, String)
            ):""", """            if isinstance(lt, Separator):""")], expect='C01.empty')
add('c01-empty-between-dropped', 'C01', 'break', [(OPERATOR, """            if isinstance(lt, Separator) or (
                    lt.get_name == '(' and not isinstance(lt, String)
            ):""", """            if (
                    lt.get_name == '(' and not isinstance(lt, String)
            ):""")], expect='C01.empty')
add('c01-empty-last-arg-dropped', 'C01', 'break', [(PAREN, """        if tokens and isinstance(tokens[-1],
                                 Separator) and self.get_name == ')':
            from .operand import Empty
            Empty().ast(tokens, stack, builder)
""", "")], expect='C01.empty')
add('c01-binary-no-parentheses', 'C01', 'break', [(OPERATOR, """            expr = '(%s)' % (' %s ' % name).join(expr)""", """            expr = (' %s ' % name).join(expr)""")], expect='C01.render')
add('c01-function-name-not-upper', 'C01', 'break', [(FUNCTION, """        self.attr['expr'] = '%s(%s)' % (self.name.upper(), args)""", """        self.attr['expr'] = '%s(%s)' % (self.name, args)""")], expect='C01.render')
add('c01-set-expr-conditional', 'C01', 'break', [(OPERAND, """    def set_expr(self, *tokens):
        self.attr['expr'] = '"%s"' % self.name""", """    def set_expr(self, *tokens):
        if self.name:
            self.attr['expr'] = '"%s"' % self.name""")], expect='C01.render')
add('c01-range-before-error', 'C01', 'break', [(PARSER, """        Error, String, Number, Range, OperatorToken,""", """        String, Number, Range, Error, OperatorToken,""")], expect='C01.filters')
add('c01-intersect-first', 'C01', 'break', [(PARSER, """        Error, String, Number, Range, OperatorToken, Separator, Function, Array,
        Parenthesis, Intersect""", """        Intersect, Error, String, Number, Range, OperatorToken, Separator,
        Function, Array, Parenthesis""")], expect='C01.filters')
add('c01-benign-ranks-times-ten', 'C01', 'benign', [(OPERATOR, """        ':': 8, ' ': 8, ',': 8, 'u-': 7, 'u+': 7, '%': 6, '^': 5, '*': 4,
        '/': 4, '+': 3, '-': 3, '&': 2, '=': 1, '<': 1, '>': 1, '<=': 1,
        '>=': 1, '<>': 1""", """        ':': 80, ' ': 80, ',': 80, 'u-': 70, 'u+': 70, '%': 60, '^': 50,
        '*': 40, '/': 40, '+': 30, '-': 30, '&': 20, '=': 10, '<': 10, '>': 10,
        '<=': 10, '>=': 10, '<>': 10""")])
add('c01-benign-relation-in-while', 'C01', 'benign', [(OPERATOR, """        while stack and isinstance(stack[-1], Operator):
            if pred > stack[-1].pred:
                break
            builder.append(stack.pop())""", """        while stack and isinstance(stack[-1], Operator) and \\
                pred <= stack[-1].pred:
            builder.append(stack.pop())""")])
add('c01-benign-filters-harmless-swap', 'C01', 'benign', [(PARSER, """        Error, String, Number, Range,""", """        String, Error, Number, Range,""")])
add('c01-repair-unary-parenthesised', 'C01', 'repair', [(OPERATOR, """            expr = '{}{}'.format(name[1], *expr)""", """            expr = '({}{})'.format(name[1], *expr)""")],
    clears='formulas/tokens/operator.py::Operator.set_expr::unary rendering unparenthesised')
add('c01-repair-intersect-space', 'C01', 'repair', [(OPERATOR, """    _re = regex.compile(r'^(?P<name>\\s)\\s*')""", """    _re = regex.compile(r'^(?P<name> )\\s*')""")],
    clears='formulas/tokens/operator.py::Intersect::names without precedence')
add('c01-repair-single-sign', 'C01', 'repair', [(OPERATOR, """(?P<sum_minus>[\\+\\s\\-]+)""", """(?P<sum_minus>[\\+\\-])""")],
    clears='formulas/tokens/operator.py::OperatorToken::sign runs folded into one operator')

# ---------------------------------------------------------------- C04
add('c04-maxrow-off-by-one', 'C04', 'break', [(OPERAND, """maxrow = 1048576""", """maxrow = 1048575""")], expect='C04.limits')
add('c04-maxcol-xls', 'C04', 'break', [(OPERAND, """maxcol = 16384""", """maxcol = 256""")], expect='C04.limits')
add('c04-build-cel-elides-first', 'C04', 'break', [(OPERAND, """    return c != _maxcol() and c or '', r != _maxrow() and r or ''""", """    return c != 'A' and c or '', r != _maxrow() and r or ''""")], expect='C04.limits')
add('c04-default-r2-one', 'C04', 'break', [(OPERAND, """    dsp.add_data(data_id='r2', default_value=_maxrow(), initial_dist=100)""", """    dsp.add_data(data_id='r2', default_value='1', initial_dist=100)""")], expect='C04.limits')
add('c04-group-renamed', 'C04', 'break', [(OPERAND, """(?>:R\\[(?P<rr2>[\\+-]?[1-9]\\d*)\\]C\\[(?P<rc2>[\\+-]?[1-9]\\d*)\\])?""", """(?>:R\\[(?P<rrow2>[\\+-]?[1-9]\\d*)\\]C\\[(?P<rc2>[\\+-]?[1-9]\\d*)\\])?""")], expect='C04.groups')
add('c04-resolver-input-renamed', 'C04', 'break', [(OPERAND, """    dsp.add_function('relative2absolute', _sum, ['cc', 'rc2'], ['n2'])""", """    dsp.add_function('relative2absolute', _sum, ['cc', 'rcol2'], ['n2'])""")], expect='C04.groups')
add('c04-v2-no-upper', 'C04', 'break', [(OPERAND, """def fast_range2parts_v2(r1, c1, r2, c2, sheet_id):
    ref = _build_ref(c1, r1, c2, r2).upper()""", """def fast_range2parts_v2(r1, c1, r2, c2, sheet_id):
    ref = _build_ref(c1, r1, c2, r2)""")], expect='C04.fast')
add('c04-v5-bypasses-build-id', 'C04', 'break', [(OPERAND, """    ref = ref.upper()
    return {'ref': ref, 'name': _build_id(ref, sheet_id)}""", """    ref = ref.upper()
    return {'ref': ref, 'name': '%s!%s' % (sheet_id, ref)}""")], expect='C04.fast')
add('c04-v3-n2-differs', 'C04', 'break', [(OPERAND, """def fast_range2parts_v3(r1, n1, sheet_id, anchor=''):
    c1 = _index2col(n1)
    ref = '{}{}{}'.format(*_build_cel(c1, r1), anchor).upper()
    return {
        'r1': r1, 'r2': r1, 'c1': c1, 'c2': c1, 'n1': n1, 'n2': n1, 'ref': ref,""", """def fast_range2parts_v3(r1, n1, sheet_id, anchor=''):
    c1 = _index2col(n1)
    ref = '{}{}{}'.format(*_build_cel(c1, r1), anchor).upper()
    return {
        'r1': r1, 'r2': r1, 'c1': c1, 'c2': c1, 'n1': n1, 'n2': n1 + 1, 'ref': ref,""")], expect='C04.fast')
add('c04-v1-n1-not-converted', 'C04', 'break', [(OPERAND, """def fast_range2parts_v1(r1, c1, sheet_id, anchor=''):
    n1 = _col2index(c1)""", """def fast_range2parts_v1(r1, c1, sheet_id, anchor=''):
    n1 = ord(c1[-1]) - 64""")], expect='C04.fast')
add('c04-general-ref-filter-dropped', 'C04', 'break', [(OPERAND, """    dsp.add_data(data_id='ref', filters=(str.upper,))""", """    dsp.add_data(data_id='ref')""")], expect='C04')
add('c04-sheet-not-upper', 'C04', 'break', [(OPERAND, """    sheet = sheet.replace("''", "'").upper()""", """    sheet = sheet.replace("''", "'")""")], expect='C04.case')
add('c04-names-not-upper', 'C04', 'break', [(EXCEL, """            ref = Ref(n.name.upper(), '=%s' % n.value, context).compile(""", """            ref = Ref(n.name, '=%s' % n.value, context).compile(""")], expect='C04.case')
add('c04-never-quote', 'C04', 'break', [(OPERAND, """    elif ' ' in sheet:
        sheet = "'%s'" % sheet""", """    elif '  ' in sheet:
        sheet = "'%s'" % sheet""")], expect='C04.quote', may_error=True)
add('c04-benign-fast-paths-reordered', 'C04', 'benign', [(OPERAND, """    for func in (fast_range2parts_v1, fast_range2parts_v2, fast_range2parts_v3,
                 fast_range2parts_v4, fast_range2parts_v5):""", """    for func in (fast_range2parts_v2, fast_range2parts_v1, fast_range2parts_v4,
                 fast_range2parts_v3, fast_range2parts_v5):""")])
add('c04-benign-quote-also-dash', 'C04', 'benign', [(OPERAND, """    elif ' ' in sheet:
        sheet = "'%s'" % sheet""", """    elif ' ' in sheet or '-' in sheet:
        sheet = "'%s'" % sheet""")])
add('c04-repair-quote-regex', 'C04', 'repair', [(OPERAND, """_re_build_id = regex.compile(r'^[0-9]+$')
""", """_re_build_id = regex.compile(r'^[0-9]+$')
_re_plain_sheet = regex.compile(r'^[^\\W\\d][\\w\\.]*$')
"""), (OPERAND, """    elif ' ' in sheet:
        sheet = "'%s'" % sheet""", """    elif not _re_plain_sheet.match(sheet):
        sheet = "'%s'" % sheet.replace("'", "''")""")],
    clears='formulas/tokens/operand.py::_build_sheet_id::quoting predicate weaker than the reader')

# ---------------------------------------------------------------- C09
add('c09-to-dict-fix-reverted', 'C09', 'break', [(EXCEL, """'="%s"' % v.replace(
                '"', '""'
            ) or v""", """'="%s"' % v or v""")], expect='C09.quote')
add('c09-string-expr-unescaped', 'C09', 'break', [(OPERAND, """    def set_expr(self, *tokens):
        self.attr['expr'] = '"%s"' % self.name""", """    def set_expr(self, *tokens):
        self.attr['expr'] = '"%s"' % self.compile()""")], expect='C09.quote')
add('c09-address-sheet-not-doubled', 'C09', 'break', [(LOOK, """        address = "'{}'!{}".format(str(sheet_text).replace("'", "''"), address)""", """        address = "'{}'!{}".format(str(sheet_text), address)""")], expect='C09.quote')
add('c09-hexvalue-branch-dropped', 'C09', 'break', [(EXCEL, """            if isinstance(v, dict):
                if v['type'] == 'HexValue':
                    v = HexValue(v['value'])
""", "")], expect='C09.tags')
add('c09-empty-marker-spelling', 'C09', 'break', [(EXCEL, """            k: '#EMPTY' if v == [[sh.EMPTY]] else v""", """            k: '#BLANK' if v == [[sh.EMPTY]] else v""")], expect='C09.tags')
add('c09-hexvalue-type-renamed-writer', 'C09', 'break', [(EXCEL, """                'type': 'HexValue', 'value': v""", """                'type': 'Hex', 'value': v""")], expect='C09.tags')
add('c09-typed-key-renamed-writer', 'C09', 'break', [(EXCEL, """                'type': 'HexValue', 'value': v""", """                'type': 'HexValue', 'val': v""")], expect='C09.tags')
add('c09-benign-redouble-via-local', 'C09', 'benign', [(LOOK, """        address = "'{}'!{}".format(str(sheet_text).replace("'", "''"), address)""", """        quoted = str(sheet_text).replace("'", "''")
        address = "'{}'!{}".format(quoted, address)""")])
add('c09-benign-marker-renamed-both', 'C09', 'benign', [(EXCEL, """            k: '#EMPTY' if v == [[sh.EMPTY]] else v""", """            k: '#BLANK' if v == [[sh.EMPTY]] else v"""), (EXCEL, """            if isinstance(v, str) and v.upper() == '#EMPTY':""", """            if isinstance(v, str) and v.upper() == '#BLANK':""")])

# ---------------------------------------------------------------- C03
add('c03-args-zip-sorted', 'C03', 'break', [(CELL, """        for links, v in zip(self.inputs.values(), args):""", """        for links, v in zip(sorted(self.inputs.values()), args):""")], expect='C03.pair')
add('c03-cell-registers-sorted-inputs', 'C03', 'break', [(CELL, """                inputs = self.inputs
                nodes.update(inputs)""", """                inputs = sorted(self.inputs)
                nodes.update(inputs)""")], expect='C03.pair')
add('c03-cell-inputs-is-set', 'C03', 'break', [(CELL, """        self.inputs = inp = collections.OrderedDict()""", """        self.inputs = inp = collections.defaultdict(list)""")], expect='C03.pair')
add('c03-assembler-call-reversed', 'C03', 'break', [(CELL, """        for c, ind in zip(cells, self.inputs.values()):""", """        for c, ind in zip(cells, reversed(self.inputs.values())):""")], expect='C03.pair')
add('c03-inverse-outputs-sorted', 'C03', 'break', [(CELL, """                dsp.add_function(
                    None, InvRangesAssembler(self), inputs, self.outputs
                )""", """                dsp.add_function(
                    None, InvRangesAssembler(self), inputs, sorted(self.outputs)
                )""")], expect='C03.pair')
add('c03-inverse-call-over-missing', 'C03', 'break', [(CELL, """        for d in self.assembler.outputs.values():
            if isinstance(d, tuple):""", """        for d in set(self.assembler.outputs.values()):
            if isinstance(d, tuple):""")], expect='C03.pair')
add('c03-compile-inputs-unsorted', 'C03', 'break', [(BUILDER, """        for k in sorted(dsp.data_nodes):
            if not dsp.dmap.pred[k]:""", """        for k in set(dsp.data_nodes):
            if not dsp.dmap.pred[k]:""")], expect='C03')
add('c03-assemble-first-of-set', 'C03', 'break', [(EXCEL, """            if len(indices) == 1:
                get(cells, 'cell', rng['sheet_id'])[list(indices)[0]] = c.output""", """            if len(indices) <= 2:
                get(cells, 'cell', rng['sheet_id'])[list(indices)[0]] = c.output""")], expect='C03.ord')
add('c03-first-missing-wins', 'C03', 'break', [(CELL, """        for n, r in tuple(self.missing):
            c = _index2col(n)""", """        for n, r in tuple(self.missing):
            if len(ists) > self.compact:
                self.first_missing = (n, r)
                break
            c = _index2col(n)""")], expect='C03.ord')
add('c03-benign-iterate-set-no-exit', 'C03', 'benign', [(CELL, """        for n, r in tuple(self.missing):
            c = _index2col(n)""", """        for n, r in tuple(set(self.missing)):
            c = _index2col(n)""")])
add('c03-benign-list-of-inputs', 'C03', 'benign', [(CELL, """        for links, v in zip(self.inputs.values(), args):""", """        for links, v in zip(list(self.inputs.values()), args):""")])

# ---------------------------------------------------------------- C08
add('c08-inv-data-loop-dropped', 'C08', 'break', [(EXCEL, """        for i in inputs:
            inp.update(nodes.get(i, {}).get('inv-data', ()))
""", "")], expect='C08.unset')
add('c08-defaults-filter-dropped', 'C08', 'break', [(EXCEL, """        dsp.default_values = {
            k: v for k, v in dsp.default_values.items() if k not in inp
        }
        _rebind_self(dsp)

        res = dsp()""", """        _rebind_self(dsp)

        res = dsp()""")], expect='C08.unset')
add('c08-evaluate-before-filter', 'C08', 'break', [(EXCEL, """        dsp.default_values = {
            k: v for k, v in dsp.default_values.items() if k not in inp
        }
        _rebind_self(dsp)

        res = dsp()""", """        _rebind_self(dsp)

        res = dsp()
        dsp.default_values = {
            k: v for k, v in dsp.default_values.items() if k not in inp
        }""")], expect='C08.unset')
add('c08-filter-before-closure', 'C08', 'break', [(EXCEL, """        for i in inputs:
            inp.update(nodes.get(i, {}).get('inv-data', ()))
        dsp.default_values = {
            k: v for k, v in dsp.default_values.items() if k not in inp
        }
""", """        dsp.default_values = {
            k: v for k, v in dsp.default_values.items() if k not in inp
        }
        for i in inputs:
            inp.update(nodes.get(i, {}).get('inv-data', ()))
""")], expect='C08.unset')
add('c08-filter-keeps-inputs', 'C08', 'break', [(EXCEL, """            k: v for k, v in dsp.default_values.items() if k not in inp""", """            k: v for k, v in dsp.default_values.items() if k in inp""")], expect='C08.unset')
add('c08-freeze-overrides-defaults', 'C08', 'break', [(EXCEL, """            if k in dsp.data_nodes and k not in dsp.default_values:
                dsp.set_default_value(k, v.value)""", """            if k in dsp.data_nodes:
                dsp.set_default_value(k, v.value)""")], expect='C08.freeze')
add('c08-outputs-sorted', 'C08', 'break', [(EXCEL, """            inputs=inputs,
            outputs=outputs
        )""", """            inputs=inputs,
            outputs=sorted(outputs)
        )""")], expect='C08.freeze')
add('c08-not-reversed', 'C08', 'break', [(EXCEL, """            outputs, graph=dsp.dmap, reverse=True, blockers=res,""", """            outputs, graph=dsp.dmap, reverse=False, blockers=res,""")], expect='C08.freeze')
add('c08-builder-flag-not-set', 'C08', 'break', [(BUILDER, """        inp[COMPILING] = True
""", "")], expect='C08')
add('c08-builder-flag-not-cleared', 'C08', 'break', [(BUILDER, """        res[COMPILING] = False
""", "")], expect='C08.flag')
add('c08-builder-flag-cleared-late', 'C08', 'break', [(BUILDER, """        res[COMPILING] = False
        dsp.nodes.update({k: v.copy() for k, v in dsp.nodes.items()})
""", """        dsp.nodes.update({k: v.copy() for k, v in dsp.nodes.items()})
"""), (BUILDER, """        dsp.raises = True
        dsp.nodes[o]['filters'] = _default_filter()""", """        res[COMPILING] = False
        dsp.raises = True
        dsp.nodes[o]['filters'] = _default_filter()""")], expect='C08.flag')
add('c08-output-first-item', 'C08', 'break', [(BUILDER, """        res, o = dsp(inp), self.get_node_id(self[-1])""", """        res, o = dsp(inp), self.get_node_id(self[0])""")], expect='C08.flag')
add('c08-formula-inputs-reverse-sorted', 'C08', 'break', [(BUILDER, """        for k in sorted(dsp.data_nodes):
            if not dsp.dmap.pred[k]:""", """        for k in set(dsp.data_nodes):
            if not dsp.dmap.pred[k]:""")], expect='C08.order')
add('c08-benign-rename-inp', 'C08', 'benign', [(EXCEL, """        inp = set(inputs)
        nodes = dsp.nodes
        for i in inputs:
            inp.update(nodes.get(i, {}).get('inv-data', ()))
        dsp.default_values = {
            k: v for k, v in dsp.default_values.items() if k not in inp
        }""", """        free = set(inputs)
        nodes = dsp.nodes
        for i in inputs:
            free.update(nodes.get(i, {}).get('inv-data', ()))
        dsp.default_values = {
            k: v for k, v in dsp.default_values.items() if k not in free
        }""")])

# ---------------------------------------------------------------- C15
add('c15-cell-inputs-not-pushed', 'C15', 'break', [(EXCEL, """                cell = self.add_cell(sh.await_result(cell), ctx, formula_ranges)
                if cell:
                    stack.extend(cell.inputs or ())
        return self""", """                cell = self.add_cell(sh.await_result(cell), ctx, formula_ranges)
        return self""")], expect='C15.worklist')
add('c15-reference-inputs-not-pushed', 'C15', 'break', [(EXCEL, """            if n_id in self.references:
                stack.extend(self.cells[n_id].inputs or ())
                continue""", """            if n_id in self.references:
                continue""")], expect='C15.worklist')
add('c15-anchor-range-not-pushed', 'C15', 'break', [(EXCEL, """                        outputs=[n_id]
                    )
                    stack.append(ref)""", """                        outputs=[n_id]
                    )""")], expect='C15.worklist')
add('c15-done-not-marked', 'C15', 'break', [(EXCEL, """                continue
            done.add(n_id)
            if n_id in self.references:""", """                continue
            if n_id in self.references:""")], expect='C15.worklist')
add('c15-done-not-tested', 'C15', 'break', [(EXCEL, """            if isinstance(n_id, sh.Token) or n_id in done:
                continue""", """            if isinstance(n_id, sh.Token):
                continue""")], expect='C15.worklist')
add('c15-clip-max-instead-of-min', 'C15', 'break', [(EXCEL, """                int(rng['r1']), min(int(rng['r2']), max_row),""", """                int(rng['r1']), max(int(rng['r2']), max_row),""")], expect='C15.worklist')
add('c15-clip-column-start', 'C15', 'break', [(EXCEL, """                rng['n1'], min(rng['n2'], max_column)""", """                rng['n1'] + 1, min(rng['n2'], max_column)""")], expect='C15.worklist')
add('c15-from-ranges-ignores-request', 'C15', 'break', [(EXCEL, """    def from_ranges(self, *ranges):
        return self.complete(ranges)""", """    def from_ranges(self, *ranges):
        return self.complete()""")], expect='C15.worklist')
add('c15-add-cell-drops-formulas-too', 'C15', 'break', [(EXCEL, """        if cell.value is not sh.EMPTY:
            if any(not (cell.range - rng).ranges for rng in formula_ranges):
                return""", """        if cell.value is not sh.EMPTY:
            if any(not (cell.range - rng).ranges for rng in formula_ranges):
                return
        if cell.output.endswith('1'):
            return""")], expect='C15.drop')
add('c15-benign-rename-node-var', 'C15', 'benign', [(EXCEL, """            n_id = stack.pop()
            if isinstance(n_id, sh.Token) or n_id in done:
                continue
            done.add(n_id)
            if n_id in self.references:
                stack.extend(self.cells[n_id].inputs or ())
                continue""", """            n_id = stack.pop()
            if n_id in done or isinstance(n_id, sh.Token):
                continue
            done.add(n_id)
            if n_id in self.references:
                stack.extend(self.cells[n_id].inputs or ())
                continue""")])

# ---------------------------------------------------------------- C05
add('c05-init-reshape-fills-value-error', 'C05', 'break', [(F, """    res[:, :] = getattr(value, '_default', Error.errors['#N/A'])""", """    res[:, :] = Error.errors['#VALUE!']""")], expect='C05.fill')
add('c05-array-default-value-error', 'C05', 'break', [(F, """class Array(np.ndarray):
    _default = Error.errors['#N/A']""", """class Array(np.ndarray):
    _default = Error.errors['#VALUE!']""")], expect='C05.fill')
add('c05-get-shape-keeps-one', 'C05', 'break', [(F, """    r = None if r == 1 else r""", """    r = r""")], expect='C05.fill')
add('c05-reshape-copy-window', 'C05', 'break', [(RANGES, """        try:
            res[:r, :c] = value
        except ValueError:""", """        try:
            res[:, :] = value
        except ValueError:""")], expect='C05.fill')
add('c05-array-reshape-own-fill', 'C05', 'break', [(F, """            res, r, c = _init_reshape(shape, self)
            try:
                res[:r, :c] = self""", """            res = np.empty(shape, object)
            res[:, :] = 0
            r, c = get_shape(*self.shape)
            try:
                res[:r, :c] = self""")], expect='C05.fill')
add('c05-falsearray-default-true', 'C05', 'break', [(INFO, """class FalseArray(Array):
    _default = False""", """class FalseArray(Array):
    _default = True""")], expect='C05.fill')
add('c05-set-value-no-reshape', 'C05', 'break', [(RANGES, """            value = _reshape_array_as_excel(value, shape)
            self.values[rng['name']] = (rng, value)""", """            self.values[rng['name']] = (rng, value)""")], expect='C05.fill')
add('c05-third-path-no-safe-eval', 'C05', 'break', [(F, """                else:
                    res = np.vectorize(safe_eval, **kw)(*args)""", """                elif len(args) == 1:
                    res = np.vectorize(func, **kw)(*args)
                else:
                    res = np.vectorize(safe_eval, **kw)(*args)""")], expect='C05.funnel')
add('c05-broadcast-error-not-raised', 'C05', 'break', [(F, """            try:
                np.broadcast(*args)
            except ValueError:
                raise BroadcastError()
            raise ex""", """            raise ex""")], expect='C05.funnel')
add('c05-repair-fallback-broadcasts', 'C05', 'repair', [(F, """                if len(args) >= 32:
                    shapes = [np.shape(arg) for arg in args]
                    max_shape = max((s or (1,))[0] for s in shapes)
                    if max_shape == 1:
                        res = np.asarray([[
                            safe_eval(*args2vals(args))
                        ]], object).view(otype)
                    else:
                        res = np.asarray([safe_eval(*v) for v in args2list(
                            max_shape, shapes, *args
                        )], object).view(otype)
                else:""", """                if len(args) >= 32:
                    arrs = np.broadcast_arrays(*[
                        np.asarray(a, object) for a in args
                    ])
                    res = np.empty(arrs[0].shape, object)
                    for idx in np.ndindex(*res.shape):
                        res[idx] = safe_eval(*(a[idx] for a in arrs))
                    res = res.view(otype)
                else:""")],
    clears='formulas/functions/__init__.py::wrap_ufunc::hand-rolled evaluation path through args2vals')
add('c05-benign-vectorize-variable', 'C05', 'benign', [(F, """                else:
                    res = np.vectorize(safe_eval, **kw)(*args)""", """                else:
                    lifted = np.vectorize(safe_eval, **kw)
                    res = lifted(*args)""")], may_error=True)

# ---------------------------------------------------------------- C06
add('c06-intersect-min-lower', 'C06', 'break', [(RANGES, """        n1, n2 = max(y['n1'], x['n1']), min(y['n2'], x['n2'])""", """        n1, n2 = min(y['n1'], x['n1']), min(y['n2'], x['n2'])""")], expect='C06.lattice')
add('c06-intersect-rows-swapped', 'C06', 'break', [(RANGES, """            r1 = max(int(y['r1']), int(x['r1']))
            r2 = min(int(y['r2']), int(x['r2']))""", """            r1 = min(int(y['r1']), int(x['r1']))
            r2 = max(int(y['r2']), int(x['r2']))""")], expect='C06.lattice')
add('c06-hull-max-lower', 'C06', 'break', [(RANGES, """                rng['n1'] = min(rng['n1'], r['n1'])""", """                rng['n1'] = max(rng['n1'], r['n1'])""")], expect='C06.lattice')
add('c06-strict-overlap-test', 'C06', 'break', [(RANGES, """        if n1 <= n2:
            r1 = max""", """        if n1 < n2:
            r1 = max""")], expect='C06.inclusive')
add('c06-shape-without-plus-one', 'C06', 'break', [(RANGES, """    r = maxrow if r1 == 0 and r2 == maxrow else (r2 - r1 + 1)""", """    r = maxrow if r1 == 0 and r2 == maxrow else (r2 - r1)""")], expect='C06.inclusive')
add('c06-range-indices-exclusive', 'C06', 'break', [(CELL, """            for i in range(int(r['r1']), int(r['r2']) + 1)""", """            for i in range(int(r['r1']), int(r['r2']))""")], expect='C06.inclusive')
add('c06-row-function-exclusive', 'C06', 'break', [(LOOK, """        lambda r: np.arange(int(r['r1']), int(r['r2']) + 1)[:, None], cell, ref""", """        lambda r: np.arange(int(r['r1']), int(r['r2']))[:, None], cell, ref""")], expect='C06.inclusive')
add('c06-slice-exclusive', 'C06', 'break', [(RANGES, """    c = slice((i['n1'] or 1) - c, (i['n2'] or 1) - c + 1)""", """    c = slice((i['n1'] or 1) - c, (i['n2'] or 1) - c)""")], expect='C06.inclusive')
add('c06-split-step-two', 'C06', 'break', [(RANGES, """    it = ('n1', 'n2', 1), ('n2', 'n1', -1), ('r1', 'r2', 1), ('r2', 'r1', -1)""", """    it = ('n1', 'n2', 2), ('n2', 'n1', -1), ('r1', 'r2', 1), ('r2', 'r1', -1)""")], expect='C06.inclusive')
add('c06-merge-adjacency-strict', 'C06', 'break', [(RANGES, """        if (base['n2'] + 1) == rng['n1']:""", """        if base['n2'] == rng['n1']:""")], expect='C06.inclusive')
add('c06-union-dedups', 'C06', 'break', [(RANGES, """        return Ranges(self.ranges + other.ranges, values)""", """        return Ranges(self.ranges + other.ranges, values).simplify()""")], expect='C06.ops', may_error=True)
add('c06-comma-is-intersection', 'C06', 'break', [(OPS, """    ',': lambda x, y: x | y,
    ' ': lambda x, y: x & y,""", """    ',': lambda x, y: x & y,
    ' ': lambda x, y: x | y,""")], expect='C06.ops')
add('c06-colon-evaluates-operands', 'C06', 'break', [(OPS, """OPERATORS.update({k: wrap_func(v, ranges=True) for k, v in {""", """OPERATORS.update({k: wrap_func(v) for k, v in {""")], expect='C06.ops')
add('c06-empty-intersection-value', 'C06', 'break', [(RANGES, """            self._value = np.asarray([[Error.errors['#NULL!']]], object)""", """            self._value = np.asarray([[Error.errors['#VALUE!']]], object)""")], expect='C06.ops')
add('c06-benign-locals-renamed', 'C06', 'benign', [(RANGES, """def _shape(n1, n2, r1, r2, **kw):
    r1, r2 = int(r1), int(r2)
    r = maxrow if r1 == 0 and r2 == maxrow else (r2 - r1 + 1)
    c = maxcol if n1 == 0 and n2 == maxcol else (n2 - n1 + 1)
    return r, c""", """def _shape(n1, n2, r1, r2, **kw):
    r1, r2 = int(r1), int(r2)
    rows = maxrow if r1 == 0 and r2 == maxrow else (r2 - r1 + 1)
    cols = maxcol if n1 == 0 and n2 == maxcol else (n2 - n1 + 1)
    return rows, cols""")])

add('c20-time-minutes-per-day', 'C20', 'break', [(DATE, """        v = hour / 24 + minute / 1440 + second / 86400""", """        v = hour / 24 + minute / 1400 + second / 86400""")], expect='C20.time')
add('c20-n2time-hours-not-wrapped', 'C20', 'break', [(DATE, """    return hours % 24, mins, int(round(secs - 1.1E-6, 0))""", """    return hours, mins, int(round(secs - 1.1E-6, 0))""")], expect='C20.time')

add('c06-union-swaps-when-right-bigger', 'C06', 'break', [(RANGES, """        values = self.values.copy()
        values.update(other.values)
        return Ranges(self.ranges + other.ranges, values)

    def intersect""", """        x, y = self, other
        if len(y.values) > len(x.values):
            x, y = y, x
        values = x.values.copy()
        values.update(y.values)
        return Ranges(x.ranges + y.ranges, values)

    def intersect""")], expect='C06.ops')
add('c06-benign-union-aliases', 'C06', 'benign', [(RANGES, """        values = self.values.copy()
        values.update(other.values)
        return Ranges(self.ranges + other.ranges, values)

    def intersect""", """        x, y = self, other
        values = x.values.copy()
        values.update(y.values)
        return Ranges(x.ranges + y.ranges, values)

    def intersect""")])

# ---------------------------------------------------------------- typed memo (C02/C19)
add('c19-check-untyped-cache', 'C19', 'break', [(F, """    @functools.lru_cache(typed=True)
    def check(value):""", """    @functools.lru_cache()
    def check(value):""")], expect='C19.memo')
add('c19-parse-condition-memoised', 'C19', 'break', [(F, """def _xfilter(accumulator, test_range, condition, operating_range):
    from .operators import LOGIC_OPERATORS""", """@functools.lru_cache(maxsize=None)
def _kind_of(condition):
    return 2 if isinstance(condition, bool) else 0


def _xfilter(accumulator, test_range, condition, operating_range):
    from .operators import LOGIC_OPERATORS
    _kind_of(condition)""")], expect='C19.memo')
add('c02-logic-parser-memoised', 'C02', 'break', [(OPS, """def logic_input_parser(x, y):""", """@functools.lru_cache(None)
def logic_input_parser(x, y):""")], expect='C02.memo')
add('c02-benign-logic-parser-typed-memo', 'C02', 'benign', [(OPS, """def logic_input_parser(x, y):""", """@functools.lru_cache(None, typed=True)
def logic_input_parser(x, y):""")])

# ---------------------------------------------------------------- from seeded changes (simplified)
add('c06-contains-compares-rows-as-text', 'C06', 'break', [(RANGES, """def _split(base, rng, intersect=None, format_range=range2parts):""", """def _contains(base, rng):
    return base['n1'] <= rng['n1'] and rng['n2'] <= base['n2'] and \\
        base['r1'] <= rng['r1'] and rng['r2'] <= base['r2']


def _split(base, rng, intersect=None, format_range=range2parts):""")], expect='C06.inclusive')
add('c06-benign-contains-int-rows', 'C06', 'benign', [(RANGES, """def _split(base, rng, intersect=None, format_range=range2parts):""", """def _contains(base, rng):
    return base['n1'] <= rng['n1'] and rng['n2'] <= base['n2'] and \\
        int(base['r1']) <= int(rng['r1']) and int(rng['r2']) <= int(base['r2'])


def _split(base, rng, intersect=None, format_range=range2parts):""")])
add('c15-references-snapshot-before-add-book', 'C15', 'break', [(EXCEL, """            done.add(n_id)
            if n_id in self.references:""", """            done.add(n_id)
            references = self.references
            if n_id in references:"""), (EXCEL, """                continue
            references = self.references
            formula_ranges = self.formula_ranges(context)""", """                continue
            formula_ranges = self.formula_ranges(context)""")], expect='C15.snapshot')
add('c18-paren-guard-only-ranges', 'C18', 'break', [(PAREN, """        if self.has_start and tokens and isinstance(tokens[-1], Operand):
            raise TokenError""", """        if self.has_start and tokens and isinstance(tokens[-1], Range):
            raise TokenError"""), (PAREN, """        from .operand import Operand
""", """        from .operand import Operand, Range
""")], expect='C18.adjacent')
add('c18-operand-guard-removed', 'C18', 'break', [(OPERAND, """        if tokens and isinstance(tokens[-1], Operand):
            raise TokenError()
        super(Operand, self).ast(tokens, stack, builder)""", """        super(Operand, self).ast(tokens, stack, builder)""")], expect='C18.adjacent')
add('c14-function-lookup-strips-namespace', 'C14', 'break', [(FUNCTION, """        return get_functions()[self.name.upper()]""", """        functions, name = get_functions(), self.name.upper()
        while name not in functions and '.' in name:
            name = name.partition('.')[2]
        return functions[name]""")], expect='C14.lookup')
add('c14-benign-lookup-via-local', 'C14', 'benign', [(FUNCTION, """        return get_functions()[self.name.upper()]""", """        functions, name = get_functions(), self.name.upper()
        return functions[name]""")])
add('c20-x2dec-sign-test-strict', 'C20', 'break', [(ENG, """        return (x & ~y) - (y & x)""", """        return x - (y << 1) if x > y else x""")], expect='C20.mask')
add('c20-benign-x2dec-conditional', 'C20', 'benign', [(ENG, """        return (x & ~y) - (y & x)""", """        return x - (y << 1) if x >= y else x""")])
add('c13-clock-read-cached-in-module-state', 'C13', 'break', [(DATE, """def xnow():
    d = datetime.datetime.now()""", """_clock = {}


def xnow():
    if 'now' not in _clock:
        _clock['now'] = datetime.datetime.now()
    d = _clock['now']""")], expect='C13.nomemo')

# ---------------------------------------------------------------- round-2 rules
RANGES = 'formulas/ranges.py'
CELL = 'formulas/cell.py'
CYCLE = 'formulas/excel/cycle.py'
FUNCTION = 'formulas/tokens/function.py'
OPERAND = 'formulas/tokens/operand.py'
_HOIST = [(EXCEL, """        stack = sorted(stack)
        sheet_limits = {}""", """        stack = sorted(stack)
        sheet_limits, references = {}, self.references"""), (EXCEL, """            done.add(n_id)
            if n_id in self.references:""", """            done.add(n_id)
            if n_id in references:"""), (EXCEL, """                continue
            references = self.references
            formula_ranges = self.formula_ranges(context)""", """                continue
            formula_ranges = self.formula_ranges(context)""")]
add('c15-snapshot-hoisted-before-loop', 'C15', 'break', _HOIST, expect='C15.snapshot')
add('c03-snapshot-hoisted-before-loop', 'C03', 'break', _HOIST, expect='C03.snapshot')
add('c15-snapshot-refreshed-only-on-success-path', 'C15', 'break', [(EXCEL, """        stack = sorted(stack)
        sheet_limits = {}""", """        stack = sorted(stack)
        sheet_limits, references = {}, self.references"""), (EXCEL, """            done.add(n_id)
            if n_id in self.references:""", """            done.add(n_id)
            if n_id in references:""")], expect='C15.snapshot')
add('c15-benign-snapshot-read-earlier-after-add-book', 'C15', 'benign', [(EXCEL, """                continue
            formula_references = self.formula_references(context)
            if rng.get('anchor'):""", """                continue
            references = self.references
            formula_references = self.formula_references(context)
            if rng.get('anchor'):"""), (EXCEL, """                continue
            references = self.references
            formula_ranges = self.formula_ranges(context)""", """                continue
            formula_ranges = self.formula_ranges(context)""")])
add('c17-compile-reads-emptied-cells', 'C17', 'break', [(EXCEL, """        for i in inputs:
            inp.update(nodes.get(i, {}).get('inv-data', ()))""", """        for i in inputs:
            inp.update(nodes.get(i, {}).get('inv-data', ()))
            if i in self.cells:
                inp.update(self.cells[i].inputs or ())""")], expect='C17.emptied')
_TODICT = [(EXCEL, """        for d in self.dsp.function_nodes.values():
            fun = d['function']
            if isinstance(fun, CellWrapper):
                nodes.update(dict.fromkeys(d['outputs'], fun.__name__))
        return nodes""", """        nodes.update({
            k: cell.__name__ for k, cell in self.cells.items() if cell.func
        })
        return nodes""")]
add('c09-to-dict-from-cells-registry', 'C09', 'break', _TODICT, expect='C09.source')
add('c17-to-dict-from-cells-registry', 'C17', 'break', _TODICT, expect='C17.emptied')
add('c17-benign-getstate-keeps-cells', 'C17', 'benign', [(EXCEL, """        return {'dsp': self.dsp, 'cells': {}, 'books': {}}""", """        state = {'dsp': self.dsp, 'cells': {}, 'books': {}}
        return state""")], may_error=True)
add('c17-setstate-shares-class-level-defaults', 'C17', 'break', [(EXCEL, """    def __getstate__(self):
        return {'dsp': self.dsp, 'cells': {}, 'books': {}}""", """    _unloaded = {'cells': {}, 'books': {}}

    def __getstate__(self):
        return {'dsp': self.dsp}

    def __setstate__(self, state):
        self.__dict__.update(self._unloaded)
        self.__dict__.update(state)""")], expect='C17.restore')
add('c17-init-binds-module-level-dict', 'C17', 'break', [(EXCEL, """        self.cells = {}
        self.books = {}""", """        self.cells = {}
        self.books = _NO_BOOKS"""), (EXCEL, """BOOK = sh.Token('Book')""", """_NO_BOOKS = {}
BOOK = sh.Token('Book')""")], expect='C17.restore')
add('c17-benign-init-copies-module-level-dict', 'C17', 'benign', [(EXCEL, """        self.cells = {}
        self.books = {}""", """        self.cells = {}
        self.books = dict(_NO_BOOKS)"""), (EXCEL, """BOOK = sh.Token('Book')""", """_NO_BOOKS = {}
BOOK = sh.Token('Book')""")])
add('c07-callable-filter-memoises-on-self', 'C07', 'break', [(CELL, """class Cell:
    parser = Parser()""", """class CellOutput:
    def __init__(self, rng, value):
        self.rng, self.value, self.output = rng, value, None

    def __call__(self, value):
        if np.ndim(value) or value != self.value:
            return format_output(self.rng, value)
        if self.output is None:
            self.output = format_output(self.rng, self.value)
        return self.output


class Cell:
    parser = Parser()""")], expect='C07.nomut')
add('c07-benign-callable-filter-stateless', 'C07', 'benign', [(CELL, """class Cell:
    parser = Parser()""", """class CellOutput:
    def __init__(self, rng):
        self.rng = rng

    def __call__(self, value):
        return format_output(self.rng, value)


class Cell:
    parser = Parser()""")])
_BLANK = [(RANGES, """def _assemble_values(base, values, out=None):
    if out is None:
        out = np.empty(_shape(**base), object)
        out[:, :] = ''""", """def _new_blank(shape):
    out = np.empty(shape, object)
    out[:, :] = ''
    return out


_large_blank = functools.lru_cache(maxsize=8)(_new_blank)


def _assemble_values(base, values, out=None):
    if out is None:
        out = _large_blank(_shape(**base))[:]"""), (RANGES, """import itertools
import numpy as np""", """import functools
import itertools
import numpy as np""")]
add('c06-blank-block-from-memoised-template', 'C06', 'break', _BLANK, expect='C06.shared')
add('c17-blank-block-from-memoised-template', 'C17', 'break', _BLANK, expect='C17.global')
add('c06-benign-blank-block-copied-from-template', 'C06', 'benign', [(RANGES, """def _assemble_values(base, values, out=None):
    if out is None:
        out = np.empty(_shape(**base), object)
        out[:, :] = ''""", """def _new_blank(shape):
    out = np.empty(shape, object)
    out[:, :] = ''
    return out


_large_blank = functools.lru_cache(maxsize=8)(_new_blank)


def _assemble_values(base, values, out=None):
    if out is None:
        out = _large_blank(_shape(**base)).copy()"""), (RANGES, """import itertools
import numpy as np""", """import functools
import itertools
import numpy as np""")])
add('c06-sub-splits-only-against-right-operand', 'C06', 'break', [(RANGES, """        base = other.ranges
        for r0 in self.ranges:
            stack = [r0]
            for b in base:
                s = stack.copy()
                stack = []
                for r in s:
                    stack.extend(_split(b, r, format_range=self.format_range))
            base += tuple(stack)
        base, values = base[len(other.ranges):], self.values
        return Ranges(base, values)""", """        ranges, fmt = [], self.format_range
        for r0 in self.ranges:
            stack = [r0]
            for b in other.ranges:
                stack = [
                    r for s in stack for r in _split(b, s, format_range=fmt)
                ]
            ranges.extend(stack)
        return Ranges(tuple(ranges), self.values)""")], expect='C06.nodup')
add('c06-benign-sub-with-running-list', 'C06', 'benign', [(RANGES, """        base = other.ranges
        for r0 in self.ranges:
            stack = [r0]
            for b in base:
                s = stack.copy()
                stack = []
                for r in s:
                    stack.extend(_split(b, r, format_range=self.format_range))
            base += tuple(stack)
        base, values = base[len(other.ranges):], self.values
        return Ranges(base, values)""", """        seen, fmt = list(other.ranges), self.format_range
        for r0 in self.ranges:
            stack = [r0]
            for b in seen:
                stack = [
                    r for s in stack for r in _split(b, s, format_range=fmt)
                ]
            seen.extend(stack)
        return Ranges(tuple(seen[len(other.ranges):]), self.values)""")])
add('c13-repeated-volatile-call-registered-bare', 'C13', 'break', [(BUILDER, """                self.dsp.add_function(None, sh.bypass, [out], [n_id])""", """                func = token.compile()
                if isinstance(func, dict):
                    self.dsp.add_function(
                        get_id(dmap, token.name), func['function'],
                        inputs or None, [n_id]
                    )
                else:
                    self.dsp.add_function(None, sh.bypass, [out], [n_id])""")], expect='C13.mask')
add('c14-cell-with-unsupported-function-becomes-constant', 'C14', 'break', [(CELL, """        if not self.func and self.builder:
            func = self.builder.compile(
                references=references, context=context, **{CELL: self.range}
            )
            self.func = wrap_cell_func(func, self._args)
            self.update_inputs(references=references)
            self.builder = None
        return self""", """        if not self.func and self.builder:
            if self.builder.missing_operands:
                self.value = Error.errors['#NAME?']
            else:
                func = self.builder.compile(
                    references=references, context=context,
                    **{CELL: self.range}
                )
                self.func = wrap_cell_func(func, self._args)
                self.update_inputs(references=references)
            self.builder = None
        return self""")], expect='C14.local')
add('c14-benign-compile-early-return', 'C14', 'benign', [(CELL, """        if not self.func and self.builder:
            func = self.builder.compile(
                references=references, context=context, **{CELL: self.range}
            )
            self.func = wrap_cell_func(func, self._args)
            self.update_inputs(references=references)
            self.builder = None
        return self""", """        if self.func or not self.builder:
            return self
        func = self.builder.compile(
            references=references, context=context, **{CELL: self.range}
        )
        self.func = wrap_cell_func(func, self._args)
        self.update_inputs(references=references)
        self.builder = None
        return self""")])
add('c10-cut-node-chosen-by-any-over-set', 'C10', 'break', [(EXCEL, """            for k in sorted(cycle.intersection(f_nodes)):
                if _check_cycles(dmap, k, f_nodes, cycle, active_nodes, mod):
                    break
            else:
                cycles_nodes.update(cycle)""", """            check = functools.partial(
                _check_cycles, dmap, nodes=f_nodes, cycle=cycle,
                active_nodes=active_nodes, mod=mod
            )
            if not any(map(check, cycle.intersection(f_nodes))):
                cycles_nodes.update(cycle)""")], expect='C10.ord')
add('c10-benign-cut-node-any-over-sorted', 'C10', 'benign', [(EXCEL, """            for k in sorted(cycle.intersection(f_nodes)):
                if _check_cycles(dmap, k, f_nodes, cycle, active_nodes, mod):
                    break
            else:
                cycles_nodes.update(cycle)""", """            check = functools.partial(
                _check_cycles, dmap, nodes=f_nodes, cycle=cycle,
                active_nodes=active_nodes, mod=mod
            )
            if not any(map(check, sorted(cycle.intersection(f_nodes)))):
                cycles_nodes.update(cycle)""")])
add('c10-blocking-map-hoisted-out-of-component-loop', 'C10', 'break', [(CYCLE, """    sccs = _strongly_connected_components(graph)
    while sccs:""", """    sccs = _strongly_connected_components(graph)
    no_circuit = defaultdict(set)
    while sccs:"""), (CYCLE, """        path, blocked, closed = [startnode], {startnode}, set()
        no_circuit = defaultdict(set)
""", """        path, blocked, closed = [startnode], {startnode}, set()
""")], expect='C10.fresh')
add('c10-benign-blocking-map-cleared-per-component', 'C10', 'benign', [(CYCLE, """    sccs = _strongly_connected_components(graph)
    while sccs:""", """    sccs = _strongly_connected_components(graph)
    no_circuit = defaultdict(set)
    while sccs:
        no_circuit.clear()"""), (CYCLE, """        path, blocked, closed = [startnode], {startnode}, set()
        no_circuit = defaultdict(set)
""", """        path, blocked, closed = [startnode], {startnode}, set()
""")])
add('c10-cut-inputs-overwritten-per-cycle', 'C10', 'break', [(EXCEL, """            res and sh.get_nested_dicts(mod, node_id, default=set).update(res)""", """            if res:
                mod[node_id] = set(res)""")], expect='C10.accum')
add('c10-benign-cut-inputs-setdefault', 'C10', 'benign', [(EXCEL, """            res and sh.get_nested_dicts(mod, node_id, default=set).update(res)""", """            if res:
                mod.setdefault(node_id, set()).update(res)""")])
add('c11-convert-nan-passes-value-on-typeerror', 'C11', 'break', [(F, """    return value if np.isfinite(value) else default""", """    try:
        return value if np.isfinite(value) else default
    except TypeError:
        return value""")], expect='C11.finite')
add('c11-benign-convert-nan-statement-form', 'C11', 'benign', [(F, """    return value if np.isfinite(value) else default""", """    if np.isfinite(value):
        return value
    return default""")])
add('c01-function-text-drops-trailing-empty-arguments', 'C01', 'break', [(FUNCTION, """        args = ', '.join(t.get_expr for t in tokens)
        self.attr['expr'] = '%s(%s)' % (self.name.upper(), args)""", """        args = [t.get_expr for t in tokens]
        while args and not args[-1]:
            args.pop()
        self.attr['expr'] = '%s(%s)' % (self.name.upper(), ', '.join(args))""")], expect='C01.render')
add('c01-benign-function-text-via-list', 'C01', 'benign', [(FUNCTION, """        args = ', '.join(t.get_expr for t in tokens)
        self.attr['expr'] = '%s(%s)' % (self.name.upper(), args)""", """        args = [t.get_expr for t in tokens]
        self.attr['expr'] = '%s(%s)' % (self.name.upper(), ', '.join(args))""")])
_FILTREFS = [(EXCEL, """        for k, cell in cells.items():
            if k not in refs:
                nodes.update(cell.compile(references=refs).add(self.dsp))""", """        ranges = {k: v for k, v in refs.items() if v is not None}
        for k, cell in cells.items():
            if k not in refs:
                nodes.update(cell.compile(references=ranges).add(self.dsp))""")]
add('c09-from-dict-compiles-against-filtered-names', 'C09', 'break', _FILTREFS, expect='C09.refs')
add('c03-from-dict-compiles-against-filtered-names', 'C03', 'break', _FILTREFS, expect='C03.refs')
add('c09-benign-from-dict-compiles-against-copy', 'C09', 'benign', [(EXCEL, """        for k, cell in cells.items():
            if k not in refs:
                nodes.update(cell.compile(references=refs).add(self.dsp))""", """        names = dict(refs)
        for k, cell in cells.items():
            if k not in refs:
                nodes.update(cell.compile(references=names).add(self.dsp))""")])
add('c04-external-links-numbered-after-filtering', 'C04', 'break', [(EXCEL, """            data['external_links'] = {
                str(i + 1): osp.split(osp.relpath(osp.realpath(osp.join(
                    fdir, _decode_path(el.file_link.Target)
                )), self.basedir))
                for i, el in enumerate(book._external_links)
                if el.file_link.Target.endswith('.xlsx')
            }""", """            links = [
                el for el in book._external_links
                if el.file_link.Target.endswith('.xlsx')
            ]
            data['external_links'] = {
                str(i + 1): osp.split(osp.relpath(osp.realpath(osp.join(
                    fdir, _decode_path(el.file_link.Target)
                )), self.basedir))
                for i, el in enumerate(links)
            }""")], expect='C04.extlink')
add('c04-external-links-zero-based', 'C04', 'break', [(EXCEL, """                str(i + 1): osp.split(osp.relpath(osp.realpath(osp.join(""", """                str(i): osp.split(osp.relpath(osp.realpath(osp.join(""")], expect='C04.extlink')
add('c04-benign-external-links-enumerate-from-one', 'C04', 'benign', [(EXCEL, """                str(i + 1): osp.split(osp.relpath(osp.realpath(osp.join(""", """                str(i): osp.split(osp.relpath(osp.realpath(osp.join("""), (EXCEL, """                for i, el in enumerate(book._external_links)""", """                for i, el in enumerate(list(book._external_links), 1)""")])
add('c19-type-vector-memoised-per-range-not-per-source', 'C19', 'break', [(F, """    @functools.lru_cache(typed=True)
    def check(value):
        return _get_type_id(value) == type_id and operator(value, condition)

    if is_number(condition):
        if 'num' not in test_range:
            test_range['num'] = text2num(test_range['raw'])
        b = np.vectorize(check, otypes=[bool])(test_range['num'])
    else:
        b = np.vectorize(check, otypes=[bool])(test_range['raw'])""", """    if is_number(condition):
        if 'num' not in test_range:
            test_range['num'] = text2num(test_range['raw'])
        values = test_range['num']
    else:
        values = np.asarray(test_range['raw'], object)
    if 'type' not in test_range:
        test_range['type'] = np.vectorize(_get_type_id, otypes=[int])(values)
    b = test_range['type'] == type_id
    b[b] = [operator(v, condition) for v in values[b]]""")], expect='C19.slotmemo')
add('c19-benign-criterion-check-renamed-and-unrolled', 'C19', 'benign', [(F, """    @functools.lru_cache(typed=True)
    def check(value):
        return _get_type_id(value) == type_id and operator(value, condition)
""", """    @functools.lru_cache(typed=True)
    def matches(value):
        return _get_type_id(value) == type_id and operator(value, condition)

    check = matches
""")])
add('c19-criterion-compared-without-rank-test', 'C19', 'break', [(F, """        return _get_type_id(value) == type_id and operator(value, condition)""", """        return operator(value, condition)""")], expect='C19.typed')
add('c18-number-int-behind-isdigit', 'C18', 'break', [(OPERAND, """        try:
            return int(name)
        except ValueError:
            return float(name)""", """        return int(name) if name.isdigit() else float(name)""")], expect='C18.num')
add('c18-benign-number-int-broader-handler', 'C18', 'benign', [(OPERAND, """        try:
            return int(name)
        except ValueError:
            return float(name)""", """        try:
            return int(name)
        except (ValueError, OverflowError):
            return float(name)""")])

ENG = 'formulas/functions/eng.py'
add('c11-dec2x-places-ignored-for-negatives', 'C11', 'break', [(ENG, """        if x < 0:
            x += y << 1
        x = _xfunc[base](int(x))[2:].upper()
        if places is not None:
            places = int(places)
            if places >= len(x):
                return x.zfill(int(places))
        else:
            return x""", """        negative = x < 0
        if negative:
            x += y << 1
        x = _xfunc[base](int(x))[2:].upper()
        if places is None or negative:
            return x
        places = int(places)
        if places >= len(x):
            return x.zfill(places)""")], expect='C11.errkeep.unused')
add('c11-benign-dec2x-places-none-first', 'C11', 'benign', [(ENG, """        x = _xfunc[base](int(x))[2:].upper()
        if places is not None:
            places = int(places)
            if places >= len(x):
                return x.zfill(int(places))
        else:
            return x""", """        x = _xfunc[base](int(x))[2:].upper()
        if places is None:
            return x
        places = int(places)
        if places >= len(x):
            return x.zfill(places)""")])
add('c11-x2dec-new-unchecked-argument', 'C11', 'break', [(ENG, """def _x2dec(x, base=16):
    if isinstance(x, XlError):
        return x""", """def _x2dec(x, base=16):
    if isinstance(x, XlError):
        return x
    if x == '0':
        return 0"""), (ENG, """        function=_x2dec,
        inputs=['HEX'],""", """        function=_x2dec,
        inputs=['HEX', 'places'],""")], expect='C11.errkeep.unused')

# ---------------------------------------------------------------- round-3 rules
DATE_ = 'formulas/functions/date.py'
add('c13-defined-name-evaluated-at-load', 'C13', 'break', [(CELL, """    def _output_filters(self):
        return ()
""", """    @property
    def constant(self):
        if self.func and not self.inputs:
            value = self.func()
            if isinstance(value, (int, float)):
                return value

    def _output_filters(self):
        return ()
"""), (EXCEL, """            refs[ref.output] = None
            self.cells[ref.output] = ref""", """            refs[ref.output] = ref.constant
            self.cells[ref.output] = ref""")], expect='C13.direct')
add('c13-clock-pinned-in-module-stack', 'C13', 'break', [(DATE_, """def xnow():
    d = datetime.datetime.now()""", """_CLOCK = []


def _now():
    return _CLOCK[-1] if _CLOCK else datetime.datetime.now()


def xnow():
    d = _now()""")], expect='C13.nomemo')
add('c13-benign-clock-through-helper', 'C13', 'benign', [(DATE_, """def xnow():
    d = datetime.datetime.now()""", """def _now():
    return datetime.datetime.now()


def xnow():
    d = _now()""")])
add('c05-whole-array-fast-path', 'C05', 'break', [(F, """                else:
                    res = np.vectorize(safe_eval, **kw)(*args)""", """                else:
                    try:
                        res = func(*(np.asarray(v, float) for v in args))
                    except (ValueError, TypeError):
                        res = np.vectorize(safe_eval, **kw)(*args)""")], expect='C05.funnel')
add('c05-elements-memoised-by-value', 'C05', 'break', [(F, """def clean_values(values):""", """def _memoize(func):
    memo = {}

    def wrapper(*vals):
        try:
            return memo[vals]
        except KeyError:
            memo[vals] = res = func(*vals)
            return res
        except TypeError:
            return func(*vals)

    return wrapper


def clean_values(values):"""), (F, """                else:
                    res = np.vectorize(safe_eval, **kw)(*args)""", """                else:
                    res = np.vectorize(_memoize(safe_eval), **kw)(*args)""")], expect='C05.memo')
add('c06-intersection-returns-list-of-areas', 'C06', 'break', [(RANGES, """        r = tuple(self.format_range(('name', 'n1', 'n2'), **i)
                  for i in self.intersect(other))""", """        r = [self.format_range(('name', 'n1', 'n2'), **i)
             for i in self.intersect(other)]""")], expect='C06.tuple')
add('c06-benign-union-by-unpacking', 'C06', 'benign', [(RANGES, """        return Ranges(self.ranges + other.ranges, values)""", """        return Ranges((*self.ranges, *other.ranges), values)""")])
add('c06-value-single-walk-over-blocks', 'C06', 'break', [(RANGES, """        stack, values = list(self.ranges), []
        while stack:
            update = False
            for k, (rng, value) in sorted(self.values.items()):""", """        items, values = sorted(self.values.items()), []
        for area in reversed(self.ranges):
            stack = [area]
            for k, (rng, value) in items:"""), (RANGES, """                if i:
                    update = True
                    stack.pop()""", """                if i:
                    stack.pop()"""), (RANGES, """                    values.append(value[:, c][r])
            else:
                if not update:
                    break
""", """                    values.append(value[:, c][r])
""")], expect='C06.value')
add('c17-cellwrapper-deepcopy-from-shallow-copy', 'C17', 'break', [(CELL, """    def check_cycles(self, cycle):
        from .excel.cycle import simple_cycles""", """    def __deepcopy__(self, memo):
        obj = memo[id(self)] = copy.copy(self)
        obj.parse_args = copy.deepcopy(self.parse_args, memo)
        obj.parse_kwargs = copy.deepcopy(self.parse_kwargs, memo)
        return obj

    def check_cycles(self, cycle):
        from .excel.cycle import simple_cycles""")], expect='C17.hooks')
_STALE = [(EXCEL, """    def compile(self, inputs, outputs):
        dsp = self.dsp.shrink_dsp(inputs=inputs, outputs=outputs)""", """    def compile(self, inputs, outputs):
        last = self.dsp.solution
        dsp = self.dsp.shrink_dsp(inputs=inputs, outputs=outputs)"""), (EXCEL, """        res = dsp()
""", """        res = dsp({k: last[k] for k in dsp.data_nodes
                   if k in last and k not in inp and not dsp.dmap.pred[k]})
""")]
add('c08-compile-seeds-constants-from-last-solution', 'C08', 'break', _STALE, expect='C08.history')
add('c07-compile-seeds-constants-from-last-solution', 'C07', 'break', _STALE, expect='C07.history')
add('c20-largest-serial-derived-from-datetime-max', 'C20', 'break', [(DATE_, """DATE_ZERO = datetime.datetime(1899, 12, 31)
""", """DATE_ZERO = datetime.datetime(1899, 12, 31)
DATE_MAX = (datetime.datetime.max - DATE_ZERO).days
"""), (DATE_, """    if 60 < serial_number <= 2958465:""", """    if 60 < serial_number <= DATE_MAX:""")], expect='C20.serial')
add('c20-benign-largest-serial-named-constant', 'C20', 'benign', [(DATE_, """DATE_ZERO = datetime.datetime(1899, 12, 31)
""", """DATE_ZERO = datetime.datetime(1899, 12, 31)
DATE_MAX = (datetime.datetime.max - DATE_ZERO).days + 1
"""), (DATE_, """    if 60 < serial_number <= 2958465:""", """    if 60 < serial_number <= DATE_MAX:""")])
_ENC = [(EXCEL, """def _book2dict(book):""", """@functools.lru_cache(None)
def _encode_scalar(value):
    if isinstance(value, str) and value.startswith('='):
        return '="%s"' % value.replace('"', '""')
    return value


def _encode_value(value):
    if isinstance(value, HexValue):
        return {'type': 'HexValue', 'value': value}
    try:
        return _encode_scalar(value)
    except TypeError:
        return '#EMPTY' if value == [[sh.EMPTY]] else value


def _book2dict(book):"""), (EXCEL, """        nodes = {
            k: d['value']
            for k, d in self.dsp.default_values.items()
            if not isinstance(k, sh.Token)
        }
        nodes = {
            k: isinstance(v, str) and v.startswith('=') and '="%s"' % v.replace(
                '"', '""'
            ) or v
            for k, v in nodes.items()
        }
        nodes = {
            k: '#EMPTY' if v == [[sh.EMPTY]] else v
            for k, v in nodes.items()
        }
        nodes = {
            k: {
                'type': 'HexValue', 'value': v
            } if isinstance(v, HexValue) else v
            for k, v in nodes.items()
        }""", """        nodes = {
            k: _encode_value(d['value'])
            for k, d in self.dsp.default_values.items()
            if not isinstance(k, sh.Token)
        }""")]
add('c09-export-encoder-memoised-untyped', 'C09', 'break', _ENC, expect='C09.memo')
add('c09-benign-export-encoder-in-helpers', 'C09', 'benign', [(a, b.replace("@functools.lru_cache(None)\n", ""), c) if False else (a, b, c.replace("@functools.lru_cache(None)\n", "")) for a, b, c in _ENC])
add('c09-import-reuses-compiled-cells-by-text', 'C09', 'break', [(CELL, """    def compile(self, references=None, context=None):
        if not self.func and self.builder:
            func = self.builder.compile(
                references=references, context=context, **{CELL: self.range}
            )
            self.func = wrap_cell_func(func, self._args)
            self.update_inputs(references=references)
            self.builder = None
        return self""", """    def compile(self, references=None, context=None, compiled=None):
        if not self.func and self.builder:
            key = self.builder.match.get('name')
            if compiled is not None and key in compiled:
                self.func, self.inputs = compiled[key]
            else:
                func = self.builder.compile(
                    references=references, context=context,
                    **{CELL: self.range}
                )
                self.func = wrap_cell_func(func, self._args)
                self.update_inputs(references=references)
                if compiled is not None:
                    compiled[key] = self.func, self.inputs
            self.builder = None
        return self""")], expect='C09.cachekey')
add('c02-blank-parser-factory-writes-through-view', 'C02', 'break', [(OPS, """numeric_wrap = functools.partial(wrap_ufunc)""", """def blank_parser(blank):
    def parser(*args):
        for v in args:
            if hasattr(v, 'view'):
                v = v.view(Array)
                v[v == sh.EMPTY] = blank
            elif v is sh.EMPTY:
                v = blank
            yield v

    return parser


numeric_wrap = functools.partial(wrap_ufunc, args_parser=blank_parser(0))"""), (OPS, """from . import replace_empty, not_implemented, wrap_func, wrap_ufunc, Error""", """from . import (
    replace_empty, not_implemented, wrap_func, wrap_ufunc, Error, Array
)""")], expect='C02.nomut')

add('c13-randbetween-guard-before-rounding', 'C13', 'break', [(MATH, """    bottom, top = math.ceil(bottom), math.floor(top)
    if top < bottom:
        return Error.errors['#NUM!']
""", """    if top < bottom:
        return Error.errors['#NUM!']
    bottom, top = math.ceil(bottom), math.floor(top)
""")], expect='C13.randint')
add('c13-randbetween-real-valued-draw', 'C13', 'break', [(MATH, """    return bottom + int(np.random.rand() * (top - bottom + 1))""", """    return bottom + np.random.rand() * (top - bottom)""")], expect='C13.randint')
add('c13-benign-randbetween-numpy-randint', 'C13', 'benign', [(MATH, """    return bottom + int(np.random.rand() * (top - bottom + 1))""", """    return int(np.random.randint(bottom, top + 1))""")])
add('c13-randbetween-half-open-draw', 'C13', 'break', [(MATH, """    return bottom + int(np.random.rand() * (top - bottom + 1))""", """    return int(np.random.randint(bottom, top))""")], expect='C13.randint')

add('c09-import-fallback-parses-unescaped-text', 'C09', 'break', [(EXCEL, """            try:
                cell = Cell(k, v, context=context, replace_missing_ref=ref)
            except ValueError:""", """            kw = {'context': context, 'replace_missing_ref': ref}
            if isinstance(v, str) and v.startswith('="=') and v.endswith('"'):
                v = v[2:-1].replace('""', '"')
                kw['check_formula'] = False
            try:
                cell = Cell(k, v, **kw)
            except ValueError:""")], expect='C09.fallback')
add('c09-benign-import-kwargs-in-a-dict', 'C09', 'benign', [(EXCEL, """            try:
                cell = Cell(k, v, context=context, replace_missing_ref=ref)
            except ValueError:""", """            kw = {'context': context, 'replace_missing_ref': ref}
            try:
                cell = Cell(k, v, **kw)
            except ValueError:""")])

# ---------------------------------------------------------------- round-4 rules
OPERATOR = 'formulas/tokens/operator.py'
add('c11-dec2x-places-rebound-for-negatives', 'C11', 'break', [(ENG, """        if x < 0:
            x += y << 1""", """        if x < 0:
            x, places = x + (y << 1), None""")], expect='C11.errkeep.unused')
add('c19-vlookup-index-checked-before-transpose', 'C19', 'break', [(LOOK, """    vec = np.matrix(vec)
    if transpose:
        vec = vec.T""", """    vec = np.matrix(vec)
    if index >= len(vec):
        raise FoundError(err=Error.errors['#REF!'])
    if transpose:
        vec = vec.T""")], expect='C19.guard')
add('c19-benign-index-checked-after-transpose', 'C19', 'benign', [(LOOK, """    if transpose:
        vec = vec.T
    try:""", """    if transpose:
        vec = vec.T
    if index >= len(vec):
        raise FoundError(err=Error.errors['#REF!'])
    try:""")])
add('c14-failed-workbooks-remembered', 'C14', 'break', [(EXCEL, """        stack = sorted(stack)
        sheet_limits = {}""", """        stack = sorted(stack)
        sheet_limits, unavailable = {}, set()"""), (EXCEL, """            try:
                context = self.add_book(book)[1]
                wk, context = self.add_sheet(rng['sheet'], context)
            except Exception as ex:  # Missing excel file or sheet.
                log.warning('Error in loading `{}`:\\n{}'.format(n_id, ex))
                Cell(n_id, '=#REF!').compile().add(self.dsp)
                self.books.pop(book, None)
                continue""", """            if book in unavailable:
                Cell(n_id, '=#REF!').compile().add(self.dsp)
                continue
            try:
                context = self.add_book(book)[1]
                wk, context = self.add_sheet(rng['sheet'], context)
            except Exception as ex:  # Missing excel file or sheet.
                log.warning('Error in loading `{}`:\\n{}'.format(n_id, ex))
                Cell(n_id, '=#REF!').compile().add(self.dsp)
                self.books.pop(book, None)
                unavailable.add(book)
                continue""")], expect='C14.carry')
add('c14-load-errors-narrowed-through-a-tuple', 'C14', 'break', [(EXCEL, """        stack = sorted(stack)
        sheet_limits = {}""", """        stack = sorted(stack)
        sheet_limits = {}
        load_errors = OSError, KeyError"""), (EXCEL, """            except Exception as ex:  # Missing excel file or sheet.""", """            except load_errors as ex:  # Missing excel file or sheet.""")], expect='C14.ref')
add('c14-benign-broad-handler-through-a-tuple', 'C14', 'benign', [(EXCEL, """        stack = sorted(stack)
        sheet_limits = {}""", """        stack = sorted(stack)
        sheet_limits = {}
        load_errors = OSError, Exception"""), (EXCEL, """            except Exception as ex:  # Missing excel file or sheet.""", """            except load_errors as ex:  # Missing excel file or sheet.""")])
add('c10-check-cycles-answers-from-the-cut-map', 'C10', 'break', [(EXCEL, """    node, mod = nodes[node_id], {} if mod is None else mod
""", """    node, mod = nodes[node_id], {} if mod is None else mod
    if node_id in mod:
        return tuple(mod[node_id])
""")], expect='C10.accum')
_LINKS = [(EXCEL, """            data['external_links'] = {
                str(i + 1): osp.split(osp.relpath(osp.realpath(osp.join(
                    fdir, _decode_path(el.file_link.Target)
                )), self.basedir))
                for i, el in enumerate(book._external_links)
                if el.file_link.Target.endswith('.xlsx')
            }
            data['external_links'] = {
                k: (_encode_path(d), f)
                for k, (d, f) in data['external_links'].items()
            }""", """            data['external_links'] = links = {}
            for el in book._external_links:
                target = el.file_link.Target
                if target.endswith('.xlsx'):
                    d, f = osp.split(osp.relpath(osp.realpath(
                        osp.join(fdir, _decode_path(target))
                    ), self.basedir))
                    links[str(len(links) + 1)] = _encode_path(d), f""")]
add('c04-links-numbered-by-table-size', 'C04', 'break', _LINKS, expect='C04.extlink')
add('c03-links-numbered-by-table-size', 'C03', 'break', _LINKS, expect='C03.extlink')
add('c07-inverse-assembler-cells-before-blocks', 'C07', 'break', [(CELL, """        for d in self.assembler.outputs.values():""", """        for d in sorted(self.assembler.outputs.values(),
                        key=lambda d: not isinstance(d, tuple)):""")], expect='C07.pair')
add('c04-r1c1-corners-ordered-as-text', 'C04', 'break', [(OPERAND, """def fast_range2parts_v4(r1, n1, r2, n2, sheet_id):
""", """def fast_range2parts_v4(r1, n1, r2, n2, sheet_id):
    if n1 > n2:
        n1, n2 = n2, n1
""")], expect='C04.fast')
add('c04-benign-a1-corners-put-in-order', 'C04', 'benign', [(OPERAND, """def fast_range2parts_v2(r1, c1, r2, c2, sheet_id):
    ref = _build_ref(c1, r1, c2, r2).upper()
    return {
        'r1': r1, 'r2': r2, 'c1': c1, 'c2': c2, 'n1': _col2index(c1),
        'n2': _col2index(c2), 'ref': ref, 'name': _build_id(ref, sheet_id)
    }""", """def fast_range2parts_v2(r1, c1, r2, c2, sheet_id):
    n1, n2 = _col2index(c1), _col2index(c2)
    if n1 > n2:
        c1, c2, n1, n2 = c2, c1, n2, n1
    ref = _build_ref(c1, r1, c2, r2).upper()
    return {
        'r1': r1, 'r2': r2, 'c1': c1, 'c2': c2, 'n1': n1, 'n2': n2, 'ref': ref,
        'name': _build_id(ref, sheet_id)
    }""")], may_error=True)
add('c01-rank-copied-before-the-sign-is-renamed', 'C01', 'break', [(OPERATOR, """        self.update_name(tokens, stack)
        pred = self.pred
        while stack and isinstance(stack[-1], Operator):
            if pred > stack[-1].pred:""", """        pred = self.attr['pred'] = self.pred
        self.update_name(tokens, stack)
        while stack and isinstance(stack[-1], Operator):
            if pred > stack[-1].attr['pred']:""")], expect='C01.predsnap')
add('c15-sheet-extent-cache-keyed-by-title-get-idiom', 'C15', 'break', [(EXCEL, """            if wk not in sheet_limits:
                sheet_limits[wk] = wk.max_row, wk.max_column
            max_row, max_column = sheet_limits[wk]""", """            limits = sheet_limits.get(rng['sheet'])
            if limits is None:
                limits = sheet_limits[rng['sheet']] = wk.max_row, wk.max_column
            max_row, max_column = limits""")], expect='C15.cachekey')
add('c15-benign-sheet-extent-cache-removed', 'C15', 'benign', [(EXCEL, """            if wk not in sheet_limits:
                sheet_limits[wk] = wk.max_row, wk.max_column
            max_row, max_column = sheet_limits[wk]""", """            max_row, max_column = wk.max_row, wk.max_column""")])

# ---------------------------------------------------------------- round 6 rules
add('c01-one-union-token-for-all-members', 'C01', 'break', [(PAREN, """                for i in range(n - 1):
                    builder.append(Separator(','))""", """                sep = Separator(',')
                i = 1
                while i < n:
                    builder.append(sep)
                    i += 1""")], expect='C01.freshtoken')
add('c01-benign-union-token-bound-in-the-loop', 'C01', 'benign', [(PAREN, """                for i in range(n - 1):
                    builder.append(Separator(','))""", """                for i in range(n - 1):
                    sep = Separator(',')
                    builder.append(sep)""")])
add('c10-single-node-components-dropped-with-filter', 'C10', 'break', [(CYCLE, """    sccs = _strongly_connected_components(graph)
    while sccs:""", """    sccs = list(filter(lambda c: len(c) >= 2,
                       _strongly_connected_components(graph)))
    while sccs:""")], expect='C10.scc')
add('c10-benign-components-listed', 'C10', 'benign', [(CYCLE, """    sccs = _strongly_connected_components(graph)
    while sccs:""", """    sccs = list(_strongly_connected_components(graph))
    while sccs:""")])
add('c10-cell-graph-consumed-through-dict-copy', 'C10', 'break', [(CELL, """        dmap = {
            v: set(nbrs) - skip_nodes
            for v, nbrs in fn.dsp.dmap.succ.items()
            if v not in skip_nodes
        }
        dmap[o] = set(cycle).intersection(inputs)""", """        if not hasattr(self, '_graph'):
            self._graph = {
                v: set(nbrs) - skip_nodes
                for v, nbrs in fn.dsp.dmap.succ.items()
                if v not in skip_nodes
            }
        dmap = dict(self._graph)
        dmap[o] = set(cycle).intersection(inputs)""")], expect='C10.consume')
add('c10-benign-cell-graph-filled-by-loop', 'C10', 'benign', [(CELL, """        dmap = {
            v: set(nbrs) - skip_nodes
            for v, nbrs in fn.dsp.dmap.succ.items()
            if v not in skip_nodes
        }
        dmap[o] = set(cycle).intersection(inputs)""", """        dmap = {}
        for v, nbrs in fn.dsp.dmap.succ.items():
            if v not in skip_nodes:
                dmap[v] = set(nbrs).difference(skip_nodes)
        dmap[o] = set(cycle).intersection(inputs)""")], may_error=True)
add('c04-fast-path-for-relative-first-corner', 'C04', 'break', [(OPERAND, """    inputs = {k: kw[k] for k in _keys if k in kw}

    for func in""", """    inputs = {k: kw[k] for k in _keys if k in kw}
    if 'rc1' in kw and 'rr1' in kw and 'n1' not in inputs:
        inputs.update(
            r1=str(int(kw.get('cr', 1)) + int(kw['rr1'])),
            n1=int(kw.get('cc', 1)) + int(kw['rc1']))

    for func in""")], expect='C04.fast')
add('c04-benign-fast-path-for-relative-single-cell', 'C04', 'benign', [(OPERAND, """    inputs = {k: kw[k] for k in _keys if k in kw}

    for func in""", """    inputs = {k: kw[k] for k in _keys if k in kw}
    if 'rc1' in kw and 'rr1' in kw and 'rr2' not in kw and 'rc2' not in kw \
            and not {'r1', 'n1', 'c1', 'r2', 'n2', 'c2'} & set(kw):
        inputs.update(
            r1=float(int(kw.get('cr', 1)) + int(kw['rr1'])),
            n1=float(int(kw.get('cc', 1)) + int(kw['rc1'])))

    for func in""")], may_error=True)
add('c11-a-conversion-before-the-error-check', 'C11', 'break', [(STAT, """    _raise and raise_errors(args)
    it = flatten(map(_convert_args, args), check=check)
    default = [] if default is None else [default]
    return func(list(map(convert, it) if convert else it) or default)""", """    it = flatten(map(_convert_args, args), check=check)
    vals = list(map(convert, it)) if convert else list(it)
    if _raise:
        raise_errors(vals)
    default = [] if default is None else [default]
    return func(vals or default)""")], expect='C11.errkeep.sinks')
add('c11-benign-error-check-as-statement', 'C11', 'benign', [(STAT, """    _raise and raise_errors(args)
    it = flatten(map(_convert_args, args), check=check)
    default = [] if default is None else [default]
    return func(list(map(convert, it) if convert else it) or default)""", """    if _raise:
        raise_errors(args)
    it = flatten(map(_convert_args, args), check=check)
    vals = list(map(convert, it)) if convert else list(it)
    default = [] if default is None else [default]
    return func(vals or default)""")])
add('c11-error-scan-remembered-on-the-array', 'C11', 'break', [(F, """def get_error(*vals):
    # noinspection PyTypeChecker
    for v in flatten(vals, None, True):
        if isinstance(v, XlError):
            return v""", """def get_error(*vals):
    for val in vals:
        if isinstance(val, Array) and getattr(val, '_clean', False):
            continue
        # noinspection PyTypeChecker
        for v in flatten((val,), None, True):
            if isinstance(v, XlError):
                return v
        if isinstance(val, Array):
            val._clean = True""")], expect='C11.scanpure')
add('c11-benign-error-scan-with-next', 'C11', 'benign', [(F, """def get_error(*vals):
    # noinspection PyTypeChecker
    for v in flatten(vals, None, True):
        if isinstance(v, XlError):
            return v""", """def get_error(*vals):
    # noinspection PyTypeChecker
    return next(
        (v for v in flatten(vals, None, True) if isinstance(v, XlError)), None
    )""")], may_error=True)
add('c14-unknown-link-index-left-alone', 'C14', 'break', [(OPERAND, """    if excel_id and excel_id != '0':
        inputs['directory'], inputs['filename'] = inputs.get(
            'external_links', {}
        ).get(excel_id, ('', excel_id))""", """    link = inputs.get('external_links', {}).get(excel_id)
    if link is not None:
        inputs['directory'], inputs['filename'] = link""")], expect='C14.link')
add('c14-benign-link-table-in-a-local', 'C14', 'benign', [(OPERAND, """    if excel_id and excel_id != '0':
        inputs['directory'], inputs['filename'] = inputs.get(
            'external_links', {}
        ).get(excel_id, ('', excel_id))""", """    if excel_id and excel_id != '0':
        table = inputs.get('external_links', {})
        directory, filename = table.get(excel_id, ('', excel_id))
        inputs['directory'], inputs['filename'] = directory, filename""")])
add('c19-exact-match-before-the-type-filter', 'C19', 'break', [(LOOK, """    res = [Error.errors['#N/A']]
    b = lookup_value_type == lookup_array_type""", """    res = [Error.errors['#N/A']]
    if not match_type:
        hit = np.flatnonzero(lookup_array == lookup_value)
        if hit.size:
            return lookup_array_index[hit[0]]
    b = lookup_value_type == lookup_array_type""")], expect='C19.typed')
add('c19-benign-exact-match-on-the-filtered-array', 'C19', 'benign', [(LOOK, """            b = lookup_value == array
            if b.any():
                return index[b][0]
            return Error.errors['#N/A']""", """            hit = np.flatnonzero(array == lookup_value)
            if hit.size:
                return index[hit[0]]
            return Error.errors['#N/A']""")], may_error=True)

# ---------------------------------------------------------------- round 7 rules
PARSER = 'formulas/parser.py'
add('c02-power-through-math-pow', 'C02', 'break', [(OPS, """    try:
        r = x ** y
    except OverflowError:
        return Error.errors['#NUM!']
    return Error.errors['#NUM!'] if isinstance(r, complex) else r""", """    import math
    try:
        return math.pow(x, y)
    except OverflowError:
        return Error.errors['#NUM!']""")], expect='C02.pow')
add('c02-benign-power-through-math-pow-guarded', 'C02', 'benign', [(OPS, """    try:
        r = x ** y
    except OverflowError:
        return Error.errors['#NUM!']
    return Error.errors['#NUM!'] if isinstance(r, complex) else r""", """    import math
    try:
        return math.pow(x, y)
    except (OverflowError, ValueError):
        return Error.errors['#NUM!']""")], may_error=True)
add('c06-range-operator-selects-blocks-by-name', 'C06', 'break', [(RANGES, """            values = self.values.copy()
            values.update(other.values)
            value = _assemble_values(rng, values)""", """            names = {r['name'] for r in self.ranges + other.ranges}
            values = {
                k: v for k, v in {**self.values, **other.values}.items()
                if k in names
            }
            value = _assemble_values(rng, values)""")], expect='C06.allvalues')
add('c06-benign-range-operator-merges-blocks-with-unpacking', 'C06', 'benign', [(RANGES, """            values = self.values.copy()
            values.update(other.values)
            value = _assemble_values(rng, values)""", """            values = {**self.values, **other.values}
            value = _assemble_values(rng, values)""")])
add('c08-inverse-record-filtered', 'C08', 'break', [(CELL, """                d['inv-data'] = set(self.outputs)""", """                d['inv-data'] = set(filter(
                    lambda k: isinstance(self.outputs[k], tuple), self.outputs
                ))""")], expect='C08.invdata')
add('c08-benign-inverse-record-as-comprehension', 'C08', 'benign', [(CELL, """                d['inv-data'] = set(self.outputs)""", """                d['inv-data'] = {k for k in self.outputs}""")])
add('c13-truncation-of-the-whole-draw', 'C13', 'break', [(MATH, """    return bottom + int(np.random.rand() * (top - bottom + 1))""", """    return int(np.random.rand() * (top - bottom + 1) + bottom)""")], expect='C13.randint')
add('c13-benign-floor-of-the-whole-draw', 'C13', 'benign', [(MATH, """    return bottom + int(np.random.rand() * (top - bottom + 1))""", """    return math.floor(bottom + np.random.rand() * (top - bottom + 1))""")], may_error=True)
add('c17-state-with-a-shallow-copy-of-the-dispatcher', 'C17', 'break', [(EXCEL, """        return {'dsp': self.dsp, 'cells': {}, 'books': {}}""", """        import copy
        return {'dsp': copy.copy(self.dsp), 'cells': {}, 'books': {}}""")], expect='C17.hooks')
add('c17-benign-state-built-in-steps', 'C17', 'benign', [(EXCEL, """        return {'dsp': self.dsp, 'cells': {}, 'books': {}}""", """        state = {'cells': {}, 'books': {}}
        state['dsp'] = self.dsp
        return state""")], may_error=True)
add('c18-only-the-top-of-the-stack-tested-at-the-end', 'C18', 'break', [(PARSER, """        while stack:
            if isinstance(stack[-1], Parenthesis):
                raise ParenthesesError()
            builder.append(stack.pop())""", """        if stack:
            if isinstance(stack[-1], Parenthesis):
                raise ParenthesesError()
            builder.append(stack.pop())""")], expect='C18.drain')
add('c18-benign-stack-drained-with-reversed-loop', 'C18', 'benign', [(PARSER, """        while stack:
            if isinstance(stack[-1], Parenthesis):
                raise ParenthesesError()
            builder.append(stack.pop())""", """        while stack:
            token = stack.pop()
            if isinstance(token, Parenthesis):
                raise ParenthesesError()
            builder.append(token)""")])
add('c18-number-regex-with-unicode-digits', 'C18', 'break', [(OPERAND, """(?>[0-9]+(?>\\.[0-9]+)?|\\.[0-9]+)(?>E[+-][0-9]+)?""", """(?>\\d+(?>\\.\\d+)?|\\.\\d+)(?>E[+-]\\d+)?""")], expect='C18.num')

add('c20-digit-check-removed', 'C20', 'break', [(ENG, """        if isinstance(x, str) and not set(x) <= _xdigits[base]:
            raise ValueError  # `int` accepts also signs, blanks, `_`, and `0x`.
""", "")], expect='C20.digits')
add('c20-benign-digit-check-with-all', 'C20', 'benign', [(ENG, """        if isinstance(x, str) and not set(x) <= _xdigits[base]:
            raise ValueError  # `int` accepts also signs, blanks, `_`, and `0x`.
""", """        if isinstance(x, str) and not all(c in _xdigits[base] for c in x):
            raise ValueError
""")])

if __name__ == '__main__':
    here = os.path.dirname(os.path.abspath(__file__))
    ids = [v['id'] for v in V]
    assert len(ids) == len(set(ids)), 'duplicate variant id'
    with open(os.path.join(here, 'variants.json'), 'w') as f:
        json.dump({'variants': V}, f, indent=1)
    print(len(V), 'variants')
